package formula

// Demonstration of the known finding C04 / (*Runner).resolvePercentBinaryExpression#post.4:
// `%` does not return the exact remainder when the integer quotient has more than 34 digits.
// Run against the real code without writing to /repo:
//   echo '{"Replace":{"/repo/zz_c04_rem_demo_test.go":"/verif/findings/C04_rem_demo_test.go"}}' > /tmp/ov.json
//   cd /repo && go test -overlay /tmp/ov.json -vet=off -count=1 -run TestFindingC04Rem .
// It FAILS on the current tree (that is the finding).

import (
	"context"
	"fmt"
	"testing"
)

func TestFindingC04Rem(t *testing.T) {
	for _, c := range []struct{ src, want string }{
		{"1e40 % 7", "4"},
		{"10000000000000000000000000000000000000000 % 7", "4"},
		{"1e20 % 3", "1"}, // quotient of 20 digits: exact today
	} {
		code, err := ParseSourceCode([]byte(c.src))
		if err != nil {
			t.Fatalf("%s: %v", c.src, err)
		}
		r := NewRunner()
		r.SetThis(map[string]any{})
		v, err := r.Resolve(context.Background(), code.Expression)
		if err != nil || fmt.Sprint(v) != c.want {
			t.Errorf("%s = %v (err %v), want %s", c.src, v, err, c.want)
		}
	}
}
