package formula

import (
	"context"
	"testing"
)

// C05: "`===` is true exactly when both operands are null or are of the same
// kind (boolean, number, string) with equal value ...; `!=` and `!==` are
// always the negations of `==` and `===`".
// A number-kind NaN (typeof gives "number"), e.g. toFloat('abc') or 0/0, is
// reported strictly equal to every other number.
func TestHuntC05_2(t *testing.T) {
	eval := func(src string) interface{} {
		code, err := ParseSourceCode([]byte(src))
		if err != nil {
			t.Fatalf("parse %q: %v", src, err)
		}
		v, err := NewRunner().Resolve(context.Background(), code.Expression)
		if err != nil {
			t.Fatalf("eval %q: %v", src, err)
		}
		return v
	}
	if got := eval("typeof toFloat('abc')"); got != "number" {
		t.Fatalf("typeof toFloat('abc') = %v, want number", got)
	}
	for _, c := range []struct {
		src  string
		want bool
	}{
		{"toFloat('abc') === 5", false},
		{"5 === toFloat('abc')", false},
		{"toFloat('abc') !== 5", true},
		{"toFloat('abc') == 5", false},
		{"toFloat('abc') != 5", true},
		{"0/0 === 5", false},
		{"0/0 === -123.25", false},
		{"sqrt(-1) === 5", false},
	} {
		if got := eval(c.src); got != c.want {
			t.Errorf("%s = %v, want %v", c.src, got, c.want)
		}
	}
}
