package formula

import (
	"context"
	"testing"
)

// C05: "For any two finite numbers exactly one of a < b, a == b, a > b is
// true, in agreement with their numeric order no matter how they are written".
// A number literal whose exponent does not fit the decimal library's int
// exponent is silently turned into +Infinity (or into 0 when negative), so
// distinct finite numbers compare equal, and a positive number equals 0.
func TestHuntC05_4(t *testing.T) {
	eval := func(src string) interface{} {
		code, err := ParseSourceCode([]byte(src))
		if err != nil {
			t.Fatalf("parse %q: %v", src, err)
		}
		v, err := NewRunner().Resolve(context.Background(), code.Expression)
		if err != nil {
			t.Fatalf("eval %q: %v", src, err)
		}
		return v
	}
	for _, c := range []struct {
		src  string
		want bool
	}{
		// the smaller exponents are handled fine ...
		{"1e9223372036854775807 > 1e9223372036854775806", true},
		// ... one step further everything collapses
		{"1e9223372036854775809 > 1e9223372036854775808", true},
		{"1e9223372036854775809 == 1e9223372036854775808", false},
		{"1e9223372036854775809 === 1e9223372036854775808", false},
		{"1e99999999999999999999 != 1e99999999999999999998", true},
		{"1e-9223372036854775809 > 0", true},
		{"1e-9223372036854775809 == 0", false},
		{"1e-99999999999999999999 === 0", false},
		// 10^-(2^63+1) is tiny, yet it is evaluated as 10^(2^63-1)
		{"0.1e-9223372036854775808 < 1", true},
	} {
		if got := eval(c.src); got != c.want {
			t.Errorf("%s = %v, want %v", c.src, got, c.want)
		}
	}
}
