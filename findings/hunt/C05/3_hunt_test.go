package formula

import (
	"context"
	"testing"
)

// C05: "For any two finite numbers exactly one of a < b, a == b, a > b is
// true ...; <= and >= are the corresponding disjunctions".
// Go numbers of kind uint*, int8 or int16 coming from the data map (or
// returned by a host function) are never normalised to the number kind, so
// none of <, ==, > holds for them, <=/>= are true although neither disjunct
// is, and == is not even symmetric.
func TestHuntC05_3(t *testing.T) {
	eval := func(src string, this map[string]interface{}) interface{} {
		code, err := ParseSourceCode([]byte(src))
		if err != nil {
			t.Fatalf("parse %q: %v", src, err)
		}
		r := NewRunner()
		r.SetThis(this)
		v, err := r.Resolve(context.Background(), code.Expression)
		if err != nil {
			t.Fatalf("eval %q: %v", src, err)
		}
		return v
	}
	this := map[string]interface{}{
		"u8":  uint8(5),
		"u64": uint64(5),
		"i16": int16(5),
		"cnt": func() (uint, error) { return 5, nil }, // host function
	}
	for _, x := range []string{"u8", "u64", "i16", "cnt()"} {
		lt, eq, gt := eval(x+" < 5", this), eval(x+" == 5", this), eval(x+" > 5", this)
		if lt != false || eq != true || gt != false {
			t.Errorf("%s vs 5: <:%v ==:%v >:%v, want exactly == to be true", x, lt, eq, gt)
		}
		le := eval(x+" <= 5", this)
		if le != (lt == true || eq == true) {
			t.Errorf("%s <= 5 is %v but (%s < 5) is %v and (%s == 5) is %v", x, le, x, lt, x, eq)
		}
		if got := eval(x+" < 6", this); got != true {
			t.Errorf("%s < 6 = %v, want true", x, got)
		}
		if got := eval(x+" > 4", this); got != true {
			t.Errorf("%s > 4 = %v, want true", x, got)
		}
		if a, b := eval(x+" == 5", this), eval("5 == "+x, this); a != b {
			t.Errorf("(%s == 5) is %v but (5 == %s) is %v", x, a, x, b)
		}
		if got := eval(x+" === 5", this); got != true {
			t.Errorf("%s === 5 = %v, want true", x, got)
		}
	}
}
