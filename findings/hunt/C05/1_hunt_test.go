package formula

import (
	"context"
	"testing"
)

// C05: "For any two finite numbers exactly one of a < b, a == b, a > b is true,
// in agreement with their numeric order no matter how they are written".
// A negative number written with more than 34 significant digits is silently
// rounded by the unary minus, so two different negative numbers compare equal
// (while the same two numbers without the sign compare correctly).
func TestHuntC05_1(t *testing.T) {
	eval := func(src string) interface{} {
		code, err := ParseSourceCode([]byte(src))
		if err != nil {
			t.Fatalf("parse %q: %v", src, err)
		}
		v, err := NewRunner().Resolve(context.Background(), code.Expression)
		if err != nil {
			t.Fatalf("eval %q: %v", src, err)
		}
		return v
	}
	// a = -(10^34 + 1), b = -(10^34); numerically a < b.
	a := "-10000000000000000000000000000000001"
	b := "-10000000000000000000000000000000000"
	want := map[string]bool{
		"<": true, "==": false, ">": false, "<=": true, ">=": false,
		"!=": true, "===": false, "!==": true,
	}
	for _, op := range []string{"<", "==", ">", "<=", ">=", "!=", "===", "!=="} {
		src := a + " " + op + " " + b
		if got := eval(src); got != want[op] {
			t.Errorf("%s = %v, want %v", src, got, want[op])
		}
	}
	// sanity: the positive counterparts are ordered correctly by the same code
	if got := eval("10000000000000000000000000000000001 > 10000000000000000000000000000000000"); got != true {
		t.Errorf("positive counterpart: got %v, want true", got)
	}
	// same defect with a fractional number
	if got := eval("-0.10000000000000000000000000000000001 < -0.1"); got != true {
		t.Errorf("-0.10000000000000000000000000000000001 < -0.1 = %v, want true", got)
	}
}
