package formula

import (
	"testing"
)

// C02: prefix `!` binds tighter than every binary operator and a prefix
// expression may start a formula or a list element. `.5` is a number literal
// of this language (`.5`, `-.5`, `~.5`, `+.5`, `!!.5`, `! .5` and `!0.5` all
// parse), so `!.5` must parse to the same tree as `! .5`:
// PrefixUnary(!, NumberLiteral ".5").
func TestHuntC02_1(t *testing.T) {
	shape := func(e Expression) string {
		p, ok := e.(*PrefixUnaryExpression)
		if !ok || p.Operator == nil {
			return "not-a-prefix-expression"
		}
		l, ok := p.Operand.(*LiteralExpression)
		if !ok {
			return "operand-not-a-literal"
		}
		if p.Operator.Token != SK_Exclamation || l.Token != SK_NumberLiteral || l.Value != ".5" {
			return "wrong-operator-or-operand"
		}
		return "pre(! num:.5)"
	}

	// Controls: the same operand under every other prefix operator, and the
	// same operator with a blank or a leading zero, are all accepted.
	for _, ok := range []string{".5", "-.5", "+.5", "~.5", "!!.5", "! .5", "!0.5", "typeof .5", "[-.5]", "f(~.5)"} {
		if _, err := ParseSourceCode([]byte(ok)); err != nil {
			t.Fatalf("control %q unexpectedly rejected: %v", ok, err)
		}
	}
	ref, err := ParseSourceCode([]byte("! .5"))
	if err != nil || shape(ref.Expression) != "pre(! num:.5)" {
		t.Fatalf("control `! .5` did not give pre(! num:.5): %v", err)
	}

	// The formula itself.
	src, err := ParseSourceCode([]byte("!.5"))
	if err != nil {
		t.Errorf("`!.5` rejected: %v; want the tree of `! .5` = pre(! num:.5)", err)
	} else if got := shape(src.Expression); got != "pre(! num:.5)" {
		t.Errorf("`!.5` tree = %s; want pre(! num:.5)", got)
	}

	// Same root cause wherever the prefix expression may start: list element,
	// call argument, conditional branch, operand of a binary operator, under
	// another prefix operator.
	for _, in := range []string{"[!.5]", "f(!.5)", "a ? !.5 : 1", "a && !.5", "-!.5", "!!!.5", "(!.5)"} {
		if _, err := ParseSourceCode([]byte(in)); err != nil {
			t.Errorf("%q rejected: %v", in, err)
		}
	}
}
