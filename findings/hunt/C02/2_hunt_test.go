package formula

import (
	"fmt"
	"os"
	"os/exec"
	"strings"
	"testing"
)

// C02: "Parentheses, brackets and call arguments nest as written ... and any
// token sequence not derivable from this grammar is rejected with an error."
// For every input ParseSourceCode must therefore come back with either the
// nested tree or an error. With 2,000,000 nested parentheses (a 4 MB formula)
// it does neither: the recursive-descent parser has no depth limit, the
// goroutine stack passes Go's 1 GB cap and the runtime kills the whole process
// with "fatal error: stack overflow", which the recover() in ParseSourceCode
// cannot intercept. The parse runs in a child process so that the crash can be
// observed and reported as an ordinary test failure.
func TestHuntC02_2(t *testing.T) {
	const depth = 2000000
	if os.Getenv("HUNT_C02_2_CHILD") == "1" {
		in := strings.Repeat("(", depth) + "1" + strings.Repeat(")", depth)
		src, err := ParseSourceCode([]byte(in))
		if err != nil {
			fmt.Println("CHILD-RETURNED error")
			return
		}
		// walk down iteratively and check that the parentheses nest as written
		n := 0
		e := src.Expression
		for {
			p, ok := e.(*ParenthesizedExpression)
			if !ok {
				break
			}
			n++
			e = p.Expression
		}
		fmt.Printf("CHILD-RETURNED tree depth=%d\n", n)
		return
	}

	// sanity: a moderate depth works and nests as written
	small := strings.Repeat("(", 1000) + "1" + strings.Repeat(")", 1000)
	if _, err := ParseSourceCode([]byte(small)); err != nil {
		t.Fatalf("depth 1000 rejected: %v", err)
	}

	cmd := exec.Command(os.Args[0], "-test.run=^TestHuntC02_2$", "-test.count=1")
	cmd.Env = append(os.Environ(), "HUNT_C02_2_CHILD=1")
	out, err := cmd.CombinedOutput()
	text := string(out)
	if len(text) > 600 {
		text = text[:600] + "..."
	}
	if !strings.Contains(string(out), "CHILD-RETURNED") {
		t.Fatalf("ParseSourceCode on %d nested parentheses neither returned a tree nor an error; the process died (%v):\n%s", depth, err, text)
	}
	if !strings.Contains(string(out), fmt.Sprintf("CHILD-RETURNED tree depth=%d", depth)) && !strings.Contains(string(out), "CHILD-RETURNED error") {
		t.Fatalf("unexpected child result:\n%s", text)
	}
}
