package formula

import (
	"context"
	"fmt"
	"testing"
)

// C10: the reported fields are EXACTLY the names the formula reads as values.
// `$x = 1` only writes the local `$x` (the evaluator never evaluates the left
// side of `=`), so it reads no name at all, yet `$x` is reported.
func TestHuntC10_2(t *testing.T) {
	const src = "$x = 1"
	code, err := ParseSourceCode([]byte(src))
	if err != nil {
		t.Fatalf("parse %q: %v", src, err)
	}

	// The evaluator really does not read $x: a poisoned previous value has no influence.
	for _, data := range []map[string]interface{}{{}, {"$x": "poison"}, {"$x": []int{1}}} {
		before := fmt.Sprintf("%v", data)
		r := NewRunner()
		r.SetThis(data)
		v, err := r.Resolve(context.Background(), code.Expression)
		t.Logf("eval with data %s -> %v, %v", before, v, err)
		if err != nil || v != float64(1) {
			t.Fatalf("unexpected evaluation %v, %v", v, err)
		}
	}

	fields, err := ResolveReferenceFields(code)
	if err != nil {
		t.Fatalf("resolve: %v", err)
	}
	t.Logf("ResolveReferenceFields(%q) = %q", src, fields)
	if len(fields) != 0 {
		t.Errorf("formula %q reads no name as a value, but fields reported = %q (want none)", src, fields)
	}

	// Non-local flavour of the same thing: `a = 1` can never read `a`
	// (the evaluator rejects the assignment), but `a` is reported.
	code2, err := ParseSourceCode([]byte("a = 1"))
	if err != nil {
		t.Fatal(err)
	}
	nl, err := ResolveReferenceFieldsNotLocal(code2)
	t.Logf("ResolveReferenceFieldsNotLocal(%q) = %q, err=%v", "a = 1", nl, err)
}
