package formula

import (
	"context"
	"errors"
	"fmt"
	"sort"
	"testing"
)

// C10: the reported fields are exactly the names/paths read as values everywhere
// except in callee position, the analysis refuses member access on anything but
// a name or path, and the reported fields (plus the called names) are sufficient.
//
// `f(x).g(y)` has a member access on a call result (neither a name nor a path)
// and reads `x` as an ordinary argument value, yet the analysis neither refuses
// nor reports `x`: resolveCallExpression never looks at the callee sub-tree.
func TestHuntC10_1(t *testing.T) {
	const src = "f(x).g(y)"
	code, err := ParseSourceCode([]byte(src))
	if err != nil {
		t.Fatalf("parse %q: %v", src, err)
	}
	fields, rerr := ResolveReferenceFields(code)
	sort.Strings(fields)
	t.Logf("ResolveReferenceFields(%q) = %q, err=%v", src, fields, rerr)

	// (a) refusal / exactness: either the member access on the call result is
	// refused, or the argument x (read as a value, not a callee) is reported.
	if rerr == nil {
		hasX := false
		for _, f := range fields {
			if f == "x" {
				hasX = true
			}
		}
		if !hasX {
			t.Errorf("analysis accepted member access on a call result and reported %q: "+
				"the value read `x` is missing and nothing was refused", fields)
		}
	}

	// (b) sufficiency: two data maps that agree on every reported field (y) and
	// on every called name (f; g is not a top-level name) must evaluate alike.
	f := func(v interface{}) (interface{}, error) {
		if v == nil {
			return nil, errors.New("x is required")
		}
		return map[string]interface{}{}, nil
	}
	eval := func(data map[string]interface{}) string {
		r := NewRunner()
		r.SetThis(data)
		v, err := r.Resolve(context.Background(), code.Expression)
		return fmt.Sprintf("value=%v err=%v", v, err)
	}
	if rerr == nil {
		m1 := map[string]interface{}{"f": f, "y": 2, "x": 1}
		m2 := map[string]interface{}{"f": f, "y": 2}
		r1, r2 := eval(m1), eval(m2)
		t.Logf("with x=1   : %s", r1)
		t.Logf("without x  : %s", r2)
		if r1 != r2 {
			t.Errorf("maps agreeing on reported fields %q and called name f evaluate differently:\n  %s\n  %s", fields, r1, r2)
		}
	}

	// Same root cause, other shapes: none of these is refused although the
	// member access is on a literal / array / `this`, not on a name or path.
	for _, s := range []string{`"s".len()`, `[a].b(c)`, `this.f(x)`, `f(x)(y)`} {
		c, err := ParseSourceCode([]byte(s))
		if err != nil {
			t.Fatalf("parse %q: %v", s, err)
		}
		fs, e := ResolveReferenceFields(c)
		t.Logf("ResolveReferenceFields(%q) = %q, err=%v", s, fs, e)
	}
}
