package formula

import (
	"context"
	"testing"
	"time"
)

// C19: "`date(y,m,d)` is local midnight of that civil date" and "`addDate`
// shifts civil fields with the same carry rule".
//
// In a zone whose daylight-saving transition removes local midnight
// (America/Santiago: 2024-09-08 00:00 -> 01:00; same for America/Havana,
// America/Asuncion, Atlantic/Azores, America/Sao_Paulo before 2019, ...)
// date(2024,9,8) is neither midnight nor on the requested civil date: it is
// 2024-09-07 23:00. addDate(2024-09-07 00:00, 0,0,1) likewise stays on
// 2024-09-07.
func TestHuntC19_1(t *testing.T) {
	loc, err := time.LoadLocation("America/Santiago")
	if err != nil {
		t.Skip("tzdata not available:", err)
	}
	eval := func(src string, this map[string]interface{}) interface{} {
		t.Helper()
		code, err := ParseSourceCode([]byte(src))
		if err != nil {
			t.Fatalf("parse %q: %v", src, err)
		}
		r := NewRunner()
		r.SetThis(this)
		v, err := r.Resolve(context.Background(), code.Expression)
		if err != nil {
			t.Fatalf("resolve %q: %v", src, err)
		}
		return v
	}

	// --- date(y,m,d) with the process-local zone being America/Santiago
	old := time.Local
	time.Local = loc
	defer func() { time.Local = old }()

	got := eval("date(2024,9,8)", nil).(time.Time)
	t.Logf("date(2024,9,8) in %s = %v", loc, got)
	if y, m, d := got.Date(); y != 2024 || m != time.September || d != 8 {
		t.Errorf("date(2024,9,8) has civil date %04d-%02d-%02d, want 2024-09-08", y, m, d)
	}
	if v := eval("day(date(2024,9,8))", nil); v != float64(8) {
		t.Errorf("day(date(2024,9,8)) = %v, want 8", v)
	}
	if v := eval("month(date(2024,9,8))*100+day(date(2024,9,8))", nil); v != float64(908) {
		t.Errorf("month*100+day of date(2024,9,8) = %v, want 908", v)
	}

	// --- addDate on a time.Time that carries the zone itself (independent of time.Local)
	time.Local = old
	start := time.Date(2024, 9, 7, 0, 0, 0, 0, loc)
	next := eval("addDate(t,0,0,1)", map[string]interface{}{"t": start}).(time.Time)
	t.Logf("addDate(%v,0,0,1) = %v", start, next)
	if y, m, d := next.Date(); y != 2024 || m != time.September || d != 8 {
		t.Errorf("addDate(2024-09-07 00:00 %s, 0,0,1) has civil date %04d-%02d-%02d, want 2024-09-08", loc, y, m, d)
	}
	if v := eval("day(addDate(t,0,0,1))", map[string]interface{}{"t": start}); v != float64(8) {
		t.Errorf("day(addDate(t,0,0,1)) = %v, want 8", v)
	}
}
