package formula

import (
	"context"
	"math"
	"testing"
	"time"
)

// C19: "`millSecond` [returns] its Unix time in milliseconds".
//
// date(300000000,1,1) is a perfectly valid time.Time (Go represents +-292e9
// years), but its Unix time in milliseconds (about 9.467e18) does not fit in
// an int64, and funMillSecond goes through time.Time.UnixMilli() (int64), so
// the result silently wraps to a NEGATIVE number for a date far in the future.
func TestHuntC19_2(t *testing.T) {
	eval := func(src string) interface{} {
		t.Helper()
		code, err := ParseSourceCode([]byte(src))
		if err != nil {
			t.Fatalf("parse %q: %v", src, err)
		}
		v, err := NewRunner().Resolve(context.Background(), code.Expression)
		if err != nil {
			t.Fatalf("resolve %q: %v", src, err)
		}
		return v
	}
	ref := time.Date(300000000, 1, 1, 0, 0, 0, 0, time.Local)
	want := float64(ref.Unix()) * 1000 // Unix seconds (9.467e15) are exact; ms = s*1000
	got, ok := eval("millSecond(date(300000000,1,1))").(float64)
	if !ok {
		t.Fatalf("unexpected result type")
	}
	t.Logf("millSecond(date(300000000,1,1)) = %v, true Unix ms = %v", got, want)
	if got <= 0 {
		t.Errorf("millSecond of a date 300 million years in the future is not positive: %v", got)
	}
	if math.Abs(got-want) > math.Abs(want)*1e-12 {
		t.Errorf("millSecond(date(300000000,1,1)) = %v, want %v", got, want)
	}
	// the order of instants is inverted as a consequence
	if v := eval("millSecond(date(300000000,1,1)) > millSecond(date(2024,1,1))"); v != true {
		t.Errorf("millSecond(date(300000000,1,1)) > millSecond(date(2024,1,1)) = %v, want true", v)
	}
}
