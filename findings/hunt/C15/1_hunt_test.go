package formula

import (
	"fmt"
	"regexp"
	"testing"
)

// C15: "A syntax error is reported as `pos(line, column) error(code) message`
// whose 0-based line and byte column locate the first diagnostic's offset".
//
// When the expression ends before the end of the text (stray token, invalid
// character at top level, missing ')' followed by more tokens ...) the parser
// panics in parseSourceFileWorker (assertMsg "End of file not reached") and
// ParseSourceCode returns that raw panic text: the diagnostics that were
// already collected are dropped and no line/column is reported at all.
func TestHuntC15_1(t *testing.T) {
	format := regexp.MustCompile(`^pos\((\d+), (\d+)\) error\((\d+)\) .+$`)

	cases := []struct {
		text string
		// what the statement promises when a first diagnostic exists
		// ("" = only the pos(...) error(...) shape is checked)
		want string
	}{
		{"1 2", ""}, // two operands, no operator: a syntax error with no diagnostic at all
		{"a\n.b", ""},
		{"x +\n  # y", "pos(1, 2) error(1127) invalid character"}, // first diagnostic: offset 6 = line 1, byte column 2
		{"(1 2", "pos(0, 3) error(1005) ) expected"},             // first diagnostic: offset 3
		{"f(1)\r\n)", ""}, // stray ')' on the second line: no diagnostic, no position
	}

	for _, c := range cases {
		// Drive the parser by hand to see the diagnostics it collected before giving up.
		p := &Parser{sourceText: []byte(c.text)}
		func() {
			defer func() { recover() }()
			p.parseSourceFileWorker([]byte(c.text))
		}()
		first := "none"
		if len(p.parseDiagnostics) > 0 {
			d := p.parseDiagnostics[0]
			pos := PositionToLineAndCharacter([]byte(c.text), d.Start)
			first = fmt.Sprintf("offset %d = line %d col %d, code %d %q", d.Start, pos.Line, pos.Column, d.Code, d.MessageText)
		}

		src, err := ParseSourceCode([]byte(c.text))
		t.Logf("%q: src!=nil=%v err=%v | first collected diagnostic: %s", c.text, src != nil, err, first)
		if err == nil {
			t.Errorf("%q: syntax error not reported at all", c.text)
			continue
		}
		if !format.MatchString(err.Error()) {
			t.Errorf("%q: error %q is not of the form `pos(line, column) error(code) message`", c.text, err.Error())
		}
		if c.want != "" && err.Error() != c.want {
			t.Errorf("%q: error %q does not locate the first diagnostic, want %q", c.text, err.Error(), c.want)
		}
	}
}
