package formula

import (
	"fmt"
	"testing"
)

// C15: "the text of any expression node parses on its own to the same subtree".
//
// The member name of a selector is an *Identifier (an Expression node). After a
// '.' or '!.' the parser accepts the reserved words true/false/null/this/ctx/typeof
// as names (parseRightSideOfDot -> parseIdentifier accepts tok.IsIdentifier(),
// which includes keywords). The text of that Identifier node, parsed on its own,
// is a LiteralExpression (or, for typeof, a TypeOfExpression plus a syntax error),
// not the same Identifier subtree.
func TestHuntC15_2(t *testing.T) {
	describe := func(e Expression) string {
		switch v := e.(type) {
		case *Identifier:
			return fmt.Sprintf("Identifier(%q)", v.Value)
		case *LiteralExpression:
			return fmt.Sprintf("LiteralExpression(%q)", v.Value)
		default:
			return fmt.Sprintf("%T", e)
		}
	}

	for _, text := range []string{"a.b", "a.true", "a!.null", "f(x).this", "a. ctx", "a.false + 1", "a.typeof"} {
		src, err := ParseSourceCode([]byte(text))
		if err != nil {
			t.Fatalf("%q: unexpected parse error %v", text, err)
		}
		// find the selector
		var sel *SelectorExpression
		switch v := src.Expression.(type) {
		case *SelectorExpression:
			sel = v
		case *BinaryExpression:
			sel = v.Left.(*SelectorExpression)
		}
		name := sel.Name
		if name.Pos() < sel.Pos() || name.End() > sel.End() {
			t.Fatalf("%q: name range [%d,%d) outside selector", text, name.Pos(), name.End())
		}
		var asExpr Expression = name // the Name node IS an expression node
		sub := string(src.Text[name.Pos():name.End()])

		sub2, err2 := ParseSourceCode([]byte(sub))
		got := "<no tree>"
		if sub2 != nil {
			got = describe(sub2.Expression)
		}
		want := describe(asExpr)
		t.Logf("%q: node %s text %q re-parses to %s (err=%v)", text, want, sub, got, err2)
		if err2 != nil {
			t.Errorf("%q: text %q of expression node %s does not parse on its own: %v", text, sub, want, err2)
			continue
		}
		if got != want {
			t.Errorf("%q: text %q of expression node %s re-parses to a different subtree %s", text, sub, want, got)
		}
	}
}
