package formula

import (
	"context"
	"strings"
	"testing"
	"unicode/utf8"
)

// C17: "lpad/rpad with a one-character pad give a string of exactly the
// requested length that ends/starts with s (or the first n characters of s
// when s is longer)".
//
// The test is deliberately tolerant about the unit of "length": it accepts the
// result if its length is the requested one EITHER counted in characters
// (runes) OR counted in bytes (the unit of the library's own len()).
func TestHuntC17_1(t *testing.T) {
	eval := func(src string) string {
		t.Helper()
		code, err := ParseSourceCode([]byte(src))
		if err != nil {
			t.Fatalf("%s: parse error: %v", src, err)
		}
		v, err := NewRunner().Resolve(context.Background(), code.Expression)
		if err != nil {
			t.Fatalf("%s: eval error: %v", src, err)
		}
		s, ok := v.(string)
		if !ok {
			t.Fatalf("%s: result %#v is not a string", src, v)
		}
		return s
	}

	cases := []struct {
		fn, s, pad string
		n          int
	}{
		{"lpad", "é", "é", 3},   // 1 character, 1-character pad, want 3
		{"rpad", "é", "é", 3},   // same for rpad
		{"lpad", "日本語", "*", 4}, // 3 characters < 4: must be "*日本語"
		{"rpad", "日本語", "*", 4}, // 3 characters < 4: must be "日本語*"
	}
	for _, c := range cases {
		src := c.fn + "('" + c.s + "', '" + c.pad + "', " + string(rune('0'+c.n)) + ")"
		got := eval(src)
		runes, bytes := utf8.RuneCountInString(got), len(got)
		if runes != c.n && bytes != c.n {
			t.Errorf("%s = %q: length is %d characters / %d bytes, requested length %d", src, got, runes, bytes, c.n)
		}
		if !utf8.ValidString(got) {
			t.Errorf("%s = %q: result is not made of whole characters (invalid UTF-8)", src, got)
		}
		if utf8.RuneCountInString(c.s) <= c.n {
			if c.fn == "lpad" && !strings.HasSuffix(got, c.s) {
				t.Errorf("%s = %q: does not end with s=%q although s has only %d characters", src, got, c.s, utf8.RuneCountInString(c.s))
			}
			if c.fn == "rpad" && !strings.HasPrefix(got, c.s) {
				t.Errorf("%s = %q: does not start with s=%q although s has only %d characters", src, got, c.s, utf8.RuneCountInString(c.s))
			}
		}
	}
}
