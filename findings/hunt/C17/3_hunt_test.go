package formula

import (
	"context"
	"testing"
)

// C17: "lower/upper map case" (for all strings s).
//
// Mapping case must leave everything that is not a cased letter alone, so for a
// string x without letters lower(x) == x, upper(x) == x and the length cannot
// change. The string used here is produced by the library's own left():
// left('é', 1) is the one-byte string "\xc3" (left/right/mid/lpad/rpad cut
// strings at byte offsets). upper/lower turn that byte into U+FFFD (3 bytes).
func TestHuntC17_3(t *testing.T) {
	eval := func(src string) interface{} {
		t.Helper()
		code, err := ParseSourceCode([]byte(src))
		if err != nil {
			t.Fatalf("%s: parse error: %v", src, err)
		}
		v, err := NewRunner().Resolve(context.Background(), code.Expression)
		if err != nil {
			t.Fatalf("%s: eval error: %v", src, err)
		}
		return v
	}
	for _, f := range []string{"lower", "upper"} {
		if v := eval(f + "(left('é', 1)) == left('é', 1)"); v != true {
			t.Errorf("%s(left('é',1)) == left('é',1) is %#v, want true (no letter in the string, nothing to map)", f, v)
		}
		if v := eval("len(" + f + "(left('é', 1)))"); v != float64(1) {
			t.Errorf("len(%s(left('é',1))) = %#v, want 1 (= len(left('é',1)))", f, v)
		}
		if v := eval(f + "(left('éa', 1) + 'Ab')"); v != map[string]string{"lower": "\xc3ab", "upper": "\xc3AB"}[f] {
			t.Errorf("%s(left('éa',1) + 'Ab') = %q, want only the case of 'A'/'b' changed", f, v)
		}
	}
}
