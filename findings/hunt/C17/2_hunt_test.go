package formula

import (
	"context"
	"testing"
)

// C17: "for all strings s ... and in-range integers:
//
//	left(s,n) + right(s,len(s)-n) == s".
//
// n below is a perfectly representable int / int64 (math.MinInt64 and a few of
// its neighbours). left(s,n) is "" as it should be for a negative n, but
// right(s, len(s)-n) is asked for more characters than s has and must clamp to
// the whole string; instead it returns "".
func TestHuntC17_2(t *testing.T) {
	for _, n := range []string{
		"-9223372036854775808", // math.MinInt64
		"-9223372036854775803", // smallest magnitude that still fails for len(s)==5
	} {
		src := "left(s, " + n + ") + right(s, len(s) - (" + n + "))"
		code, err := ParseSourceCode([]byte(src))
		if err != nil {
			t.Fatalf("%s: parse error: %v", src, err)
		}
		r := NewRunner()
		r.SetThis(map[string]interface{}{"s": "hello"})
		v, err := r.Resolve(context.Background(), code.Expression)
		if err != nil {
			t.Fatalf("%s: eval error: %v", src, err)
		}
		if v != "hello" {
			t.Errorf("%s = %#v, want \"hello\" (left(s,n) + right(s,len(s)-n) == s)", src, v)
		}
	}
	// control: the same identity with a small negative n holds
	code, _ := ParseSourceCode([]byte(`left(s, -3) + right(s, len(s) - (-3)) == s`))
	r := NewRunner()
	r.SetThis(map[string]interface{}{"s": "hello"})
	if v, _ := r.Resolve(context.Background(), code.Expression); v != true {
		t.Errorf("control failed: %#v", v)
	}
}
