package formula

import (
	"context"
	"testing"
)

// C11: "null to nil for interface parameters".
// A data value that the language itself treats as null (p == null is true, p ?? 'd' is 'd',
// obj.p yields null) is handed to an interface{} parameter as a NON-nil interface holding a
// typed nil pointer when it is referenced by a plain identifier.
func TestHuntC11_4(t *testing.T) {
	ctx := context.Background()
	var calls int
	var sawNil []bool
	data := map[string]interface{}{
		"isNil": func(a interface{}) (bool, error) { calls++; sawNil = append(sawNil, a == nil); return a == nil, nil },
		"p":     (*int)(nil),
		"obj":   map[string]interface{}{"p": (*int)(nil)},
	}
	eval := func(src string) interface{} {
		code, err := ParseSourceCode([]byte(src))
		if err != nil {
			t.Fatalf("%s: parse: %v", src, err)
		}
		r := NewRunner()
		r.SetThis(data)
		v, err := r.Resolve(ctx, code.Expression)
		if err != nil {
			t.Fatalf("%s: unexpected error %v", src, err)
		}
		return v
	}
	if v := eval("p == null"); v != true {
		t.Fatalf("precondition: p == null should be true, got %v", v)
	}
	if v := eval("isNil(null)"); v != true {
		t.Errorf("isNil(null): got %v, want true", v)
	}
	if v := eval("isNil(obj.p)"); v != true {
		t.Errorf("isNil(obj.p): got %v, want true", v)
	}
	if v := eval("isNil(p)"); v != true {
		t.Errorf("isNil(p) with p=(*int)(nil), p == null is true: interface{} parameter received a non-nil interface (got %v), want nil", v)
	}
	if calls != 3 {
		t.Errorf("expected 3 calls, got %d", calls)
	}
}
