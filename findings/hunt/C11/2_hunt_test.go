package formula

import (
	"context"
	"testing"
)

// C11: "numbers to Go integers by truncation toward zero".
// For int8/int16/int32 parameters the number is first rounded to the nearest float64 and
// only then truncated, so a number just below an integer is rounded UP (away from zero).
func TestHuntC11_2(t *testing.T) {
	ctx := context.Background()
	var got32 []int32
	var got8 []int8
	var gotInt []int
	data := map[string]interface{}{
		"i32": func(a int32) (int, error) { got32 = append(got32, a); return 0, nil },
		"i8":  func(a int8) (int, error) { got8 = append(got8, a); return 0, nil },
		"i":   func(a int) (int, error) { gotInt = append(gotInt, a); return 0, nil },
	}
	eval := func(src string) {
		code, err := ParseSourceCode([]byte(src))
		if err != nil {
			t.Fatalf("%s: parse: %v", src, err)
		}
		r := NewRunner()
		r.SetThis(data)
		if _, err := r.Resolve(ctx, code.Expression); err != nil {
			t.Fatalf("%s: unexpected error %v", src, err)
		}
	}
	// control: the int path truncates correctly
	eval("i(0.99999999999999999)")
	if len(gotInt) != 1 || gotInt[0] != 0 {
		t.Errorf("i(0.99999999999999999): got %v, want [0]", gotInt)
	}
	eval("i32(0.99999999999999999)")
	if len(got32) != 1 || got32[0] != 0 {
		t.Errorf("i32(0.99999999999999999): int32 parameter received %v, want [0] (truncation toward zero)", got32)
	}
	eval("i8(-0.99999999999999999)")
	if len(got8) != 1 || got8[0] != 0 {
		t.Errorf("i8(-0.99999999999999999): int8 parameter received %v, want [0] (truncation toward zero)", got8)
	}
	got32 = nil
	eval("i32(2147483647.9999999999)")
	if len(got32) != 1 || got32[0] != 2147483647 {
		t.Errorf("i32(2147483647.9999999999): int32 parameter received %v, want [2147483647]", got32)
	}
}
