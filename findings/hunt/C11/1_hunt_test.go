package formula

import (
	"context"
	"testing"
)

// C11: "converted to its declared parameter types - ... anything to string by formatting ...
// arrays element-wise to slices".
// A Go integer that reaches the call unconverted (uint8/int8/uint/... in the data map, or any
// Go integer that is an element of a Go slice) is turned into the *rune* with that code point
// instead of being formatted.
func TestHuntC11_1(t *testing.T) {
	ctx := context.Background()
	var got []string
	data := map[string]interface{}{
		"label": func(s string) (string, error) { got = append(got, s); return s, nil },
		"code":  uint8(65),
		"ids":   []int{65, 66},
	}
	eval := func(src string) interface{} {
		code, err := ParseSourceCode([]byte(src))
		if err != nil {
			t.Fatalf("%s: parse: %v", src, err)
		}
		r := NewRunner()
		r.SetThis(data)
		v, err := r.Resolve(ctx, code.Expression)
		if err != nil {
			t.Fatalf("%s: unexpected error %v", src, err)
		}
		return v
	}

	eval("label(code)")
	if len(got) != 1 || got[0] != "65" {
		t.Errorf("label(code) with code=uint8(65): host function received %q, want [\"65\"] (formatting)", got)
	}
	if v := eval("join(ids, ',')"); v != "65,66" {
		t.Errorf("join(ids, ',') with ids=[]int{65,66}: got %q, want \"65,66\"", v)
	}
}
