package formula

import (
	"context"
	"strconv"
	"testing"
)

// C11: "numbers ... to floats by nearest value".
// The decimal number is converted with decimal.Big.Float64(), which computes
// float64(mantissa) * math.Pow10(exp) (two roundings) and is therefore not correctly
// rounded; float32 parameters are additionally obtained by float32(float64) (double rounding).
func TestHuntC11_3(t *testing.T) {
	ctx := context.Background()
	var f64 []float64
	var f32 []float32
	data := map[string]interface{}{
		"f64": func(a float64) (int, error) { f64 = append(f64, a); return 0, nil },
		"f32": func(a float32) (int, error) { f32 = append(f32, a); return 0, nil },
	}
	eval := func(src string) {
		code, err := ParseSourceCode([]byte(src))
		if err != nil {
			t.Fatalf("%s: parse: %v", src, err)
		}
		r := NewRunner()
		r.SetThis(data)
		if _, err := r.Resolve(ctx, code.Expression); err != nil {
			t.Fatalf("%s: unexpected error %v", src, err)
		}
	}
	for _, lit := range []string{"3e23", "5e24", "1e-23", "7e-30"} {
		f64 = nil
		eval("f64(" + lit + ")")
		want, _ := strconv.ParseFloat(lit, 64) // correctly rounded nearest float64
		if len(f64) != 1 || f64[0] != want {
			t.Errorf("f64(%s): float64 parameter received %v, want nearest value %v", lit, f64, want)
		}
	}
	// 1.0000000596046447754 is just ABOVE the midpoint 1+2^-24 of the float32 neighbours 1 and 1+2^-23
	lit := "1.0000000596046447754"
	eval("f32(" + lit + ")")
	w, _ := strconv.ParseFloat(lit, 32)
	if len(f32) != 1 || f32[0] != float32(w) {
		t.Errorf("f32(%s): float32 parameter received %v, want nearest value %v", lit, f32, float32(w))
	}
}
