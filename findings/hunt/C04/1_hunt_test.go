package formula

import (
	"context"
	"strconv"
	"testing"
)

// C04: "the float64 finally handed back to the caller is the one nearest the
// decimal result whenever that result is an integer of at most 15 digits scaled
// by a power of ten within 10^-22..10^22".
//
// Every decimal result below is such a number (the 15-digit-or-shorter integer
// and the power of ten are given in the comment), so Resolve must return
// exactly strconv.ParseFloat(<decimal result>), the correctly rounded float64.
func TestHuntC04_1(t *testing.T) {
	cases := []struct {
		src  string
		this map[string]interface{}
		want string // the exact decimal result
	}{
		// 949399436241294 x 10^-2 ; the decimal product is exactly 9493994362412.9400
		{"9493994362412.94 * 1.00", nil, "9493994362412.94"},
		// same, the amount coming from a float64 data field: x * 1.00 must hand x back
		{"x * 1.00", map[string]interface{}{"x": 9493994362412.94}, "9493994362412.94"},
		// 720790114221793 x 10^-12 written with two trailing zeros
		{"720.79011422179300", nil, "720.790114221793"},
		// 85 x 10^-19
		{"850000e-23", nil, "8.5e-18"},
		// 32 x 10^-21
		{"0.00032000 * 1e-16", nil, "3.2e-20"},
	}
	for _, c := range cases {
		code, err := ParseSourceCode([]byte(c.src))
		if err != nil {
			t.Fatalf("%s: parse: %v", c.src, err)
		}
		r := NewRunner()
		r.SetThis(c.this)
		dec, err := r.resolve(context.Background(), code.Expression)
		if err != nil {
			t.Fatalf("%s: %v", c.src, err)
		}
		got, err := r.Resolve(context.Background(), code.Expression)
		if err != nil {
			t.Fatalf("%s: %v", c.src, err)
		}
		want, _ := strconv.ParseFloat(c.want, 64)
		if got != want {
			t.Errorf("%s: decimal result %v; Resolve returned float64 %s, nearest float64 is %s",
				c.src, dec, strconv.FormatFloat(got.(float64), 'g', -1, 64), strconv.FormatFloat(want, 'g', -1, 64))
		}
	}
}
