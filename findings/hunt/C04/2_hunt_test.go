package formula

import (
	"context"
	"math"
	"strconv"
	"testing"
)

// C04: "the float64 finally handed back to the caller is ... within four units
// in the last place" of the decimal result. The decimal results below are
// computed correctly (1.25E-307 etc.) and lie inside the float64 range, but
// Resolve hands back 0.
func TestHuntC04_2(t *testing.T) {
	cases := []struct {
		src  string
		this map[string]interface{}
		want string
	}{
		{"1.25e-307", nil, "1.25e-307"},                 // a normal float64
		{"1e-150 * 1.25e-157", nil, "1.25e-307"},         // the same value, computed
		{"1.2345678901234567e-304", nil, "1.2345678901234567e-304"},
		{"x", map[string]interface{}{"x": 5e-320}, "5e-320"}, // float64 data value handed straight back
		{"x * 2", map[string]interface{}{"x": 5e-320}, "1e-319"},
	}
	for _, c := range cases {
		code, err := ParseSourceCode([]byte(c.src))
		if err != nil {
			t.Fatalf("%s: parse: %v", c.src, err)
		}
		r := NewRunner()
		r.SetThis(c.this)
		dec, err := r.resolve(context.Background(), code.Expression)
		if err != nil {
			t.Fatalf("%s: %v", c.src, err)
		}
		v, err := r.Resolve(context.Background(), code.Expression)
		if err != nil {
			t.Fatalf("%s: %v", c.src, err)
		}
		got := v.(float64)
		want, _ := strconv.ParseFloat(c.want, 64)
		ulp := math.Nextafter(want, math.Inf(1)) - want
		if math.Abs(got-want) > 4*ulp {
			t.Errorf("%s: decimal result %v; Resolve returned float64 %v, want %v (off by %.0f ulp)",
				c.src, dec, got, want, math.Abs(got-want)/ulp)
		}
	}
}
