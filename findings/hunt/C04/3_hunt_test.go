package formula

import (
	"context"
	"testing"

	"github.com/ericlagergren/decimal"
)

// C04: "On operands of at most 34 significant digits, `+`, `-` and `*` return
// exactly the mathematical result whenever it has at most 34 significant
// digits". Every operand and every exact result below has one significant
// digit (34 in the last case). The literals themselves are accepted and `/`
// handles them (1e7000 / 1e6990 is 1E+10), but `+`, `-` and `*` replace any
// result above 10^6145 by Infinity and flush/truncate any result below 10^-6143.
func TestHuntC04_3(t *testing.T) {
	cases := []struct{ src, want string }{
		{"1e3100 * 1e3100 / 1e6190", "1e10"},
		{"1e-3100 * 1e-3100 * 1e6200", "1"},
		{"(1e7000 + 0) / 1e6990", "1e10"},
		{"(1e7000 - 0) / 1e6990", "1e10"},
		{"(1e7000 * 1) / 1e6990", "1e10"},
		{"1e7000 / 1e6990", "1e10"}, // control: passes
		{"(1e-7000 * 1) / 1e-7003", "1000"},
		// 34-digit operand times a power of ten: exact result has 34 digits
		{"(1.234567890123456789012345678901234e-3100 * 1e-3060) / 1e-6160", "1.234567890123456789012345678901234"},
	}
	for _, c := range cases {
		code, err := ParseSourceCode([]byte(c.src))
		if err != nil {
			t.Fatalf("%s: parse: %v", c.src, err)
		}
		v, err := NewRunner().resolve(context.Background(), code.Expression)
		if err != nil {
			t.Fatalf("%s: %v", c.src, err)
		}
		got, ok := v.(*decimal.Big)
		want, _ := new(decimal.Big).SetString(c.want)
		if !ok || got.Cmp(want) != 0 {
			t.Errorf("%s = %v, want %s", c.src, v, c.want)
		}
	}
}
