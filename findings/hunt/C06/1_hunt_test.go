package formula

import (
	"context"
	"testing"
)

// C06: "Exactly null, false, numeric zero, NaN and the empty string are falsy".
// A numeric zero supplied by the host as uint / uint8 / uint16 / uint32 / uint64 /
// int8 / int16 must be falsy exactly like int(0), int32(0), int64(0), float64(0).
func TestHuntC06_1(t *testing.T) {
	eval := func(src string, this map[string]any) (interface{}, error) {
		code, err := ParseSourceCode([]byte(src))
		if err != nil {
			return nil, err
		}
		r := NewRunner()
		r.SetThis(this)
		return r.Resolve(context.Background(), code.Expression)
	}
	zeros := map[string]any{
		"int": int(0), "int32": int32(0), "int64": int64(0), "float64": float64(0), // controls (pass)
		"uint": uint(0), "uint8": uint8(0), "uint16": uint16(0), "uint32": uint32(0), "uint64": uint64(0),
		"int8": int8(0), "int16": int16(0),
	}
	for name, z := range zeros {
		this := map[string]any{"x": z}
		if v, err := eval("!!x", this); err != nil || v != false {
			t.Errorf("%s zero: !!x = %#v, %v; want false", name, v, err)
		}
		if v, err := eval("!x", this); err != nil || v != true {
			t.Errorf("%s zero: !x = %#v, %v; want true", name, v, err)
		}
		if v, err := eval("x ? 'T' : 'F'", this); err != nil || v != "F" {
			t.Errorf("%s zero: x ? 'T' : 'F' = %#v, %v; want \"F\"", name, v, err)
		}
		if v, err := eval("x || 'rhs'", this); err != nil || v != "rhs" {
			t.Errorf("%s zero: x || 'rhs' = %#v, %v; want \"rhs\"", name, v, err)
		}
		if v, err := eval("x && 'rhs'", this); err != nil || v == "rhs" {
			t.Errorf("%s zero: x && 'rhs' = %#v, %v; want the zero operand", name, v, err)
		}
	}
}
