package formula

import (
	"context"
	"fmt"
	"testing"

	"github.com/ericlagergren/decimal"
)

// C06: "Exactly null ... [is] falsy"; "`!!x` is the truthiness of x and `!x` its
// negation (for booleans, numbers and null)"; "One notion of truthiness drives every
// selection operator". The package's own notion of null (exported IsNull, used by `??`
// and by `!!`) includes typed nil pointers; a selector (`o.p`) normalises them to nil.
// Reached through a plain identifier or a host-function result they must behave the same.
func TestHuntC06_4(t *testing.T) {
	var nilStr *string
	var nilDec *decimal.Big
	this := map[string]any{
		"s": nilStr,
		"d": nilDec,
		"o": map[string]any{"s": nilStr, "d": nilDec},
		"f": func() (*decimal.Big, error) { return nil, nil },
	}
	eval := func(src string) (res interface{}, err error) {
		defer func() {
			if p := recover(); p != nil {
				err = fmt.Errorf("PANIC: %v", p)
			}
		}()
		code, err := ParseSourceCode([]byte(src))
		if err != nil {
			return nil, err
		}
		r := NewRunner()
		r.SetThis(this)
		return r.Resolve(context.Background(), code.Expression)
	}
	cases := []struct {
		src  string
		want interface{}
	}{
		// controls: the library already treats these values as null (pass)
		{"s ?? 'dflt'", "dflt"},
		{"d ?? 'dflt'", "dflt"},
		{"!!s", false},
		{"!o.s", true},
		{"!o.d", true},
		// failing
		{"!s", true},
		{"!!d", false},
		{"!d", true},
		{"d ? 'T' : 'F'", "F"},
		{"d || 'rhs'", "rhs"},
		{"!!f()", false},
		{"f() ? 'T' : 'F'", "F"},
	}
	for _, c := range cases {
		v, err := eval(c.src)
		if err != nil || v != c.want {
			t.Errorf("%s: got %#v, err=%v; want %#v", c.src, v, err, c.want)
		}
	}
}
