package formula

import (
	"context"
	"errors"
	"testing"
)

// C06: "`a && b` yields a when a is falsy", "`a || b` yields a when a is truthy",
// "`a ?? b` yields a unless a is null". The unselected operand must not decide the
// outcome; here it is a host call that returns an error (the classic guard idiom
// `x != null && x!.y`, `cached ?? load()`).
func TestHuntC06_2(t *testing.T) {
	calls := 0
	this := map[string]any{
		"fail": func() (int, error) { calls++; return 0, errors.New("boom") },
		"obj":  nil,
	}
	cases := []struct {
		src  string
		want interface{}
	}{
		{"false && fail()", false},
		{"null && fail()", nil},
		{"0 && fail()", float64(0)},
		{"'' && fail()", ""},
		{"true || fail()", true},
		{"'a' || fail()", "a"},
		{"1 ?? fail()", float64(1)},
		{"obj != null && obj!.name", false},
		{"obj == null || obj!.name", true},
	}
	for _, c := range cases {
		code, err := ParseSourceCode([]byte(c.src))
		if err != nil {
			t.Fatalf("%s: parse: %v", c.src, err)
		}
		r := NewRunner()
		r.SetThis(this)
		v, err := r.Resolve(context.Background(), code.Expression)
		if err != nil {
			t.Errorf("%s: got error %q; want %#v (the left operand)", c.src, err, c.want)
			continue
		}
		if v != c.want {
			t.Errorf("%s: got %#v; want %#v", c.src, v, c.want)
		}
	}
	if calls != 0 {
		t.Errorf("unselected right operand was evaluated %d times", calls)
	}
}
