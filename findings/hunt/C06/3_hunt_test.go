package formula

import (
	"context"
	"testing"
)

// C06: "`!x` [is] its negation (for booleans, numbers and null)".
// `.5` is a legal number literal (`!!.5` and `! .5` work), so `!.5` must be false,
// `!!!.5` false, and `0 || !.5` false.
func TestHuntC06_3(t *testing.T) {
	cases := []struct {
		src  string
		want interface{}
	}{
		{"! .5", false}, // control: passes
		{"!0.5", false}, // control: passes
		{"!!.5", true},  // control: passes
		{"!.5", false},
		{"!!!.5", false},
		{"0 || !.5", false},
		{"!.0", true},
		{"1 ? !.5 : 2", false},
	}
	for _, c := range cases {
		code, err := ParseSourceCode([]byte(c.src))
		if err != nil {
			t.Errorf("%q: parse error %q; want %#v", c.src, err, c.want)
			continue
		}
		v, err := NewRunner().Resolve(context.Background(), code.Expression)
		if err != nil || v != c.want {
			t.Errorf("%q: got %#v, %v; want %#v", c.src, v, err, c.want)
		}
	}
}
