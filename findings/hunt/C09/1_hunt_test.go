package formula

import (
	"context"
	"fmt"
	"sync"
	"testing"
)

// C09: goroutines sharing one parsed formula must each obtain the same result
// they would obtain sequentially -- for evaluation AND for collecting the
// formula's referenced fields.
func TestHuntC09_1(t *testing.T) {
	src, err := ParseSourceCode([]byte("a + b + c + d + e"))
	if err != nil {
		t.Fatal(err)
	}
	data := func() map[string]interface{} {
		return map[string]interface{}{"a": 1, "b": 2, "c": 3, "d": 4, "e": 5}
	}
	ctx := context.Background()

	// sequential reference
	r := NewRunner()
	r.SetThis(data())
	seqVal, err := r.Resolve(ctx, src.Expression)
	if err != nil {
		t.Fatal(err)
	}
	seqFields, err := ResolveReferenceFields(src)
	if err != nil {
		t.Fatal(err)
	}
	wantFields := fmt.Sprint(seqFields)

	const G, N = 8, 50
	var wg sync.WaitGroup
	var mu sync.Mutex
	distinct := map[string]int{}
	for g := 0; g < G; g++ {
		wg.Add(1)
		go func() {
			defer wg.Done()
			for i := 0; i < N; i++ {
				r := NewRunner()
				r.SetThis(data())
				v, err := r.Resolve(ctx, src.Expression)
				if err != nil || v != seqVal {
					t.Errorf("evaluation: got %v, %v; sequential result %v", v, err, seqVal)
				}
				f, err := ResolveReferenceFields(src)
				if err != nil {
					t.Errorf("fields: %v", err)
				}
				mu.Lock()
				distinct[fmt.Sprint(f)]++
				mu.Unlock()
			}
		}()
	}
	wg.Wait()
	if len(distinct) != 1 || distinct[wantFields] != G*N {
		t.Errorf("ResolveReferenceFields on one shared formula: sequential call returned %s, but the %d concurrent calls returned %d distinct results: %v",
			wantFields, G*N, len(distinct), distinct)
	}
}
