package formula

import (
	"context"
	"testing"
)

// C13: "A literal left open at a line break or at the end of input is a syntax error."
//
// After a backslash followed by a bare CR, scanEscapeSequence looks for the LF of a
// CR LF pair one character too far to the right. With CR <any char> LF it jumps over
// both the character and the LF, so a raw, unescaped LF inside the still-open literal
// (and the character before it, even the closing quote) silently disappears.
func TestHuntC13_1(t *testing.T) {
	eval := func(src string) (v interface{}, err error) {
		defer func() {
			if r := recover(); r != nil {
				t.Fatalf("panic for %q: %v", src, r)
			}
		}()
		code, err := ParseSourceCode([]byte(src))
		if err != nil {
			return nil, err
		}
		return NewRunner().Resolve(context.Background(), code.Expression)
	}

	for _, src := range []string{
		// literal is still open when the raw LF (not preceded by a backslash) is reached
		"'a\\\rx\nb'",
		"\"a\\\rx\nb\"",
		// here the quote after CR closes (or, swallowed, fails to close) the literal; the
		// remaining  LF b'  leaves a literal open at the end of input under any reading
		"'a\\\r'\nb'",
	} {
		v, err := eval(src)
		if err == nil {
			t.Errorf("formula %q: literal is left open at a raw line feed, want a syntax error, got value %q and no error", src, v)
		}
	}
}
