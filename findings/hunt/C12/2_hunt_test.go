package formula

import (
	"context"
	"testing"
)

// C12: a literal of the form .digits evaluates to exactly that decimal number.
// `!.5` is logical-not applied to the literal .5 (exactly like `! .5`, `!0.5`,
// `-.5`, `!!.5`, `true?.5:1`), so it must evaluate to false.
func TestHuntC12_2(t *testing.T) {
	ctx := context.Background()
	for _, src := range []string{"! .5", "!0.5", "!(.5)", "!.5"} {
		code, err := ParseSourceCode([]byte(src))
		if err != nil {
			t.Errorf("%q: literal .5 not recognised, parse error: %v", src, err)
			continue
		}
		v, err := NewRunner().Resolve(ctx, code.Expression)
		if err != nil {
			t.Errorf("%q: run error: %v", src, err)
			continue
		}
		if v != false {
			t.Errorf("%q evaluated to %v, want false", src, v)
		}
	}
}
