package formula

import (
	"context"
	"testing"

	"github.com/ericlagergren/decimal"
)

// C12: a literal digits[.digits][e[+-]digits] evaluates to exactly the decimal
// number written, however many digits it has (that includes the exponent digits).
func TestHuntC12_1(t *testing.T) {
	eval := func(src string) interface{} {
		code, err := ParseSourceCode([]byte(src))
		if err != nil {
			t.Fatalf("%q: unexpected parse error: %v", src, err)
		}
		v, err := NewRunner().resolve(context.Background(), code.Expression)
		if err != nil {
			t.Fatalf("%q: unexpected run error: %v", src, err)
		}
		return v
	}

	// 0 * 10^N is exactly zero for every N.
	if d, ok := eval("0e99999999999999999999").(*decimal.Big); !ok || !d.IsFinite() || d.Sign() != 0 {
		t.Errorf("0e99999999999999999999 evaluated to %v, want exactly 0", d)
	}
	if v := eval("0e99999999999999999999 == 0"); v != true {
		t.Errorf("0e99999999999999999999 == 0 evaluated to %v, want true", v)
	}
	// 10^-N is a strictly positive number, never zero.
	if d, ok := eval("1e-99999999999999999999").(*decimal.Big); !ok || !d.IsFinite() || d.Sign() <= 0 {
		t.Errorf("1e-99999999999999999999 evaluated to %v, want a positive finite number", d)
	}
	if v := eval("1e-99999999999999999999 > 0"); v != true {
		t.Errorf("1e-99999999999999999999 > 0 evaluated to %v, want true", v)
	}
	// Two different finite numbers are different, and finite.
	if d, ok := eval("1e99999999999999999999").(*decimal.Big); !ok || !d.IsFinite() {
		t.Errorf("1e99999999999999999999 evaluated to %v, want the finite number 10^99999999999999999999", d)
	}
	if v := eval("1e99999999999999999999 == 1e99999999999999999998"); v != false {
		t.Errorf("1e99999999999999999999 == 1e99999999999999999998 evaluated to %v, want false", v)
	}
	// A syntactically valid literal is a number, not NaN.
	if d, ok := eval("1e20000000000000000000").(*decimal.Big); !ok || d.IsNaN(0) {
		t.Errorf("1e20000000000000000000 evaluated to %v, want the finite number 10^20000000000000000000", d)
	}
}
