package formula

import (
	"context"
	"fmt"
	"testing"
)

// C14: "consequently inserting or removing spaces, tabs or line breaks between tokens never
// changes the parse". `! !x` is the two tokens `!` `!`; removing the space between them yields
// the single token `!!`, which the parser turns into a different node (one prefix operator
// SK_ExclamationExclamation instead of two nested SK_Exclamation) with different evaluation
// rules: `!!'a'` is true, `! !'a'` is an evaluation error.
func TestHuntC14_2(t *testing.T) {
	var dump func(e Expression) string
	dump = func(e Expression) string {
		switch n := e.(type) {
		case *PrefixUnaryExpression:
			return fmt.Sprintf("Prefix(op=%d, %s)", n.Operator.Token, dump(n.Operand))
		case *LiteralExpression:
			return fmt.Sprintf("Lit(%q)", n.Value)
		case *Identifier:
			return fmt.Sprintf("Id(%q)", n.Value)
		}
		return fmt.Sprintf("%T", e)
	}
	run := func(src string, this map[string]any) (string, string) {
		sc, err := ParseSourceCode([]byte(src))
		if err != nil {
			return "parse error: " + err.Error(), ""
		}
		r := NewRunner()
		r.SetThis(this)
		v, err := r.Resolve(context.Background(), sc.Expression)
		if err != nil {
			return dump(sc.Expression), "eval error: " + err.Error()
		}
		return dump(sc.Expression), fmt.Sprintf("%T:%v", v, v)
	}
	this := map[string]any{"s": "abc", "arr": []any{1, 2}}
	pairs := [][2]string{
		{"! !'a'", "!!'a'"},
		{"!\t!s", "!!s"},
		{"!\n!arr", "!!arr"},
		{"! !! s", "!!!s"}, // tokens `!`,`!!`,`s` regroup as `!!`,`!`,`s`
	}
	for _, p := range pairs {
		ast1, v1 := run(p[0], this)
		ast2, v2 := run(p[1], this)
		t.Logf("%-10q ast=%s value=%s", p[0], ast1, v1)
		t.Logf("%-10q ast=%s value=%s", p[1], ast2, v2)
		if ast1 != ast2 {
			t.Errorf("removing whitespace between tokens changed the parse: %q => %s, %q => %s", p[0], ast1, p[1], ast2)
		}
		if v1 != v2 {
			t.Errorf("...and the result: %q => %s, %q => %s", p[0], v1, p[1], v2)
		}
	}
}
