package formula

import (
	"fmt"
	"strings"
	"testing"
)

// C14: "Operators are matched longest-first (... `...`) ... consequently inserting or removing
// spaces ... between tokens never changes the parse". In `f(1 ...)` the tokens are
// `f ( 1 ... )` (a call that spreads its last argument). Removing the space between `1` and
// `...` makes the number scanner swallow the first dot of `...` ("1."), leaving `.` `.`,
// so the spread token is never matched and the formula no longer parses. Same for `1 .a` / `1.a`.
func TestHuntC14_3(t *testing.T) {
	var dump func(e Expression) string
	dump = func(e Expression) string {
		switch n := e.(type) {
		case *CallExpression:
			var args []string
			for _, a := range n.Arguments.Array() {
				args = append(args, dump(a))
			}
			return fmt.Sprintf("Call(%s; %s; spread=%v)", dump(n.Expression), strings.Join(args, ","), n.DotDotDotToken != nil)
		case *SelectorExpression:
			return fmt.Sprintf("Sel(%s, %s)", dump(n.Expression), dump(n.Name))
		case *LiteralExpression:
			return fmt.Sprintf("Lit(%q)", n.Value)
		case *Identifier:
			return fmt.Sprintf("Id(%q)", n.Value)
		}
		return fmt.Sprintf("%T", e)
	}
	parse := func(src string) string {
		sc, err := ParseSourceCode([]byte(src))
		if err != nil {
			return "parse error: " + err.Error()
		}
		return dump(sc.Expression)
	}
	texts := func(src string) []string {
		var out []string
		s := CreateScanner([]byte(src), nil)
		for s.Scan() != SK_EndOfFile {
			out = append(out, s.GetTokenText())
		}
		return out
	}
	pairs := [][2]string{
		{"f(1 ...)", "f(1...)"},
		{"f(a, 2 ...)", "f(a,2...)"},
		{"1 .a", "1.a"},
	}
	for _, p := range pairs {
		a, b := parse(p[0]), parse(p[1])
		t.Logf("%-12q tokens=%q parse=%s", p[0], texts(p[0]), a)
		t.Logf("%-12q tokens=%q parse=%s", p[1], texts(p[1]), b)
		if a != b {
			t.Errorf("removing the space between tokens changed the parse: %q => %s, %q => %s", p[0], a, p[1], b)
		}
	}
	if got := strings.Join(texts("f(1...)"), " "); got != "f ( 1 ... )" {
		t.Errorf("`...` not matched longest-first in %q: tokens are %q", "f(1...)", got)
	}
}
