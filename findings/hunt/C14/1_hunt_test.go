package formula

import (
	"context"
	"fmt"
	"testing"
)

// C14: "Operators are matched longest-first (... `!.` ...) ... consequently inserting or
// removing spaces, tabs or line breaks between tokens never changes the parse".
// `! .5` is the two tokens `!` and `.5` (logical not of 0.5). Removing the space between
// those two tokens must not change the parse, but the scanner glues `!` and the leading dot
// of the number into the assert-selector token `!.`, so `!.5` does not parse at all.
func TestHuntC14_1(t *testing.T) {
	eval := func(src string) string {
		sc, err := ParseSourceCode([]byte(src))
		if err != nil {
			return "parse error: " + err.Error()
		}
		v, err := NewRunner().Resolve(context.Background(), sc.Expression)
		if err != nil {
			return "eval error: " + err.Error()
		}
		return fmt.Sprintf("%T:%v", v, v)
	}
	kinds := func(src string) []SyntaxKind {
		var ks []SyntaxKind
		s := CreateScanner([]byte(src), nil)
		for {
			k := s.Scan()
			if k == SK_EndOfFile {
				return ks
			}
			ks = append(ks, k)
		}
	}
	pairs := [][2]string{
		{"! .5", "!.5"},
		{"true == ! .5", "true==!.5"},
		{"[ ! .5 ]", "[!.5]"},
		{"1 ? ! .25 : 2", "1?!.25:2"},
	}
	for _, p := range pairs {
		spaced, tight := eval(p[0]), eval(p[1])
		t.Logf("%-16q => %s", p[0], spaced)
		t.Logf("%-16q => %s", p[1], tight)
		if spaced != tight {
			t.Errorf("removing spaces between tokens changed the parse: %q => %s, but %q => %s", p[0], spaced, p[1], tight)
		}
	}
	a, b := fmt.Sprint(kinds("! .5")), fmt.Sprint(kinds("!.5"))
	t.Logf("token kinds %q: %s ; %q: %s", "! .5", a, "!.5", b)
	if a != b {
		t.Errorf("token kinds differ: %q scans as %s but %q scans as %s (SK_ExclamationDot=%d, SK_Exclamation=%d, SK_NumberLiteral=%d)",
			"! .5", a, "!.5", b, SK_ExclamationDot, SK_Exclamation, SK_NumberLiteral)
	}
}
