package formula

import (
	"context"
	"testing"
)

// C08: "evaluating a tree with equal data in a fresh runner gives the same
// value or the same error every time".
//
// A host function with a map[string]int parameter is called with a data map
// whose values cannot be converted. convMapToTarget walks the Go map with
// MapRange and returns the error of whichever entry it happens to meet first,
// so the error text changes from one evaluation to the next.
func TestHuntC08_1(t *testing.T) {
	code, err := ParseSourceCode([]byte("f(m)"))
	if err != nil {
		t.Fatal(err)
	}
	host := func(m map[string]int) (int, error) { return len(m), nil }
	inner := map[string]interface{}{"a": "x", "b": true, "c": []int{1}}
	data := map[string]interface{}{"f": host, "m": inner}

	seen := map[string]int{}
	var first string
	for i := 0; i < 300; i++ {
		r := NewRunner() // fresh runner, same tree, same (identical) data
		r.SetThis(data)
		v, err := r.Resolve(context.Background(), code.Expression)
		if err == nil {
			t.Fatalf("expected a conversion error, got value %v", v)
		}
		if i == 0 {
			first = err.Error()
		}
		seen[err.Error()]++
	}
	if len(seen) != 1 {
		t.Errorf("same tree + same data produced %d different errors (first run: %q):", len(seen), first)
		for msg, n := range seen {
			t.Errorf("  %3d x %s", n, msg)
		}
	}
}
