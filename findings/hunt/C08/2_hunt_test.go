package formula

import (
	"context"
	"fmt"
	"reflect"
	"testing"
)

// C08: "Evaluation is a pure function of formula text and data ... evaluating
// a tree with equal data in a fresh runner gives the same value ... regardless
// of which other formulas were parsed or evaluated before or in between."
//
// Runner.SetThis keeps the caller's map by reference and `$name = expr`
// (resolveEqualBinaryExpression -> SetThisValue) writes the local INTO that
// map. The local therefore survives the runner and is visible to every later
// formula evaluated in a fresh runner over the record the caller never touched.
func TestHuntC08_2(t *testing.T) {
	eval := func(src string, data map[string]interface{}) string {
		code, err := ParseSourceCode([]byte(src))
		if err != nil {
			t.Fatalf("parse %q: %v", src, err)
		}
		r := NewRunner() // always a fresh runner
		r.SetThis(data)
		v, err := r.Resolve(context.Background(), code.Expression)
		if err != nil {
			return "error: " + err.Error()
		}
		return fmt.Sprintf("%v", v)
	}

	record := map[string]interface{}{"a": 1}
	pristine := map[string]interface{}{"a": 1}

	before := eval("$t ?? 'unset'", record)
	_ = eval("$t = a + 4", record) // some OTHER formula, its own fresh runner
	after := eval("$t ?? 'unset'", record)

	if before != after {
		t.Errorf("formula `$t ?? 'unset'` over the caller's record: %q before, %q after an unrelated formula `$t = a + 4` was evaluated in another fresh runner", before, after)
	}
	if !reflect.DeepEqual(record, pristine) {
		t.Errorf("evaluation modified the caller's data map: have %v, want %v", record, pristine)
	}

	// the same formula, same record, fresh runner each time: 1 then 2
	rec2 := map[string]interface{}{}
	c1 := eval("$n = ($n ?? 0) + 1", rec2)
	c2 := eval("$n = ($n ?? 0) + 1", rec2)
	if c1 != c2 {
		t.Errorf("`$n = ($n ?? 0) + 1` evaluated twice in fresh runners over the same record: %s then %s", c1, c2)
	}
}
