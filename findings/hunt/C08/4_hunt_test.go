package formula

import (
	"context"
	"fmt"
	"testing"
	"time"
)

// C08: "Evaluation is a pure function of formula text and data ... (The clock
// functions `now` and `toDay` are the only exceptions.)"
//
// date(y, m, d) builds the time in time.Local, a process-wide variable that is
// neither formula text nor data. The same constant formula, with no data at
// all, yields different instants (and different formatted text) depending on
// the ambient zone, although it calls neither now() nor toDay().
func TestHuntC08_4(t *testing.T) {
	eval := func(src string) string {
		code, err := ParseSourceCode([]byte(src))
		if err != nil {
			t.Fatalf("parse %q: %v", src, err)
		}
		r := NewRunner()
		v, err := r.Resolve(context.Background(), code.Expression)
		if err != nil {
			return "error: " + err.Error()
		}
		return fmt.Sprintf("%v", v)
	}
	saved := time.Local
	defer func() { time.Local = saved }()

	for _, src := range []string{
		"millSecond(date(2024, 1, 1))",
		"timeFormat(date(2024, 1, 1), '2006-01-02T15:04:05Z07:00')",
		"day(useTimezone(date(2024, 1, 1), 'UTC'))",
	} {
		time.Local = time.FixedZone("east", 8*3600)
		east := eval(src)
		time.Local = time.FixedZone("west", -8*3600)
		west := eval(src)
		if east != west {
			t.Errorf("%s: %s with time.Local=+08:00, %s with time.Local=-08:00", src, east, west)
		}
	}
}
