package formula

import (
	"context"
	"math"
	"testing"
)

// C08: "evaluating a tree with equal data in a fresh runner gives the same
// value ... every time".
//
// Non-string operands of string `+`, toString(), and string parameters are
// rendered with fmt.Sprintf("%v", v) (convToString / convTypeToTarget). For a
// Go map fmt sorts the keys, but NaN keys cannot be ordered, so they keep the
// random map iteration order: the very same data object is rendered
// differently from one evaluation to the next.
func TestHuntC08_3(t *testing.T) {
	code, err := ParseSourceCode([]byte("'readings: ' + m"))
	if err != nil {
		t.Fatal(err)
	}
	m := map[float64]string{}
	for _, s := range []string{"a", "b", "c", "d", "e", "f", "g", "h", "i", "j"} {
		m[math.NaN()] = s // every NaN is a distinct key
	}
	data := map[string]interface{}{"m": m}

	seen := map[string]int{}
	for i := 0; i < 300; i++ {
		r := NewRunner()
		r.SetThis(data)
		v, err := r.Resolve(context.Background(), code.Expression)
		if err != nil {
			t.Fatal(err)
		}
		seen[v.(string)]++
	}
	if len(seen) != 1 {
		t.Errorf("same tree + same data object produced %d different values, e.g.:", len(seen))
		n := 0
		for s := range seen {
			t.Errorf("  %s", s)
			if n++; n == 3 {
				break
			}
		}
	}
}
