package formula

import (
	"context"
	"fmt"
	"testing"

	"github.com/ericlagergren/decimal"
)

// C20: "every evaluation result ... equals what a simple model gives:
// evaluations see exactly the current data map including locals assigned by
// earlier evaluations". The data map holds a typed-nil *decimal.Big (the
// library's own number type), either put there by the host or assigned to a
// local from a host function that returns (nil, nil). A plain-map model reads
// that entry back as a null value; `this.a` and `a ?? 7` already do.
func TestHuntC20_2(t *testing.T) {
	eval := func(r *Runner, src string) (res interface{}, err error) {
		defer func() {
			if p := recover(); p != nil {
				err = fmt.Errorf("PANIC: %v", p)
			}
		}()
		code, err := ParseSourceCode([]byte(src))
		if err != nil {
			return nil, err
		}
		return r.Resolve(context.Background(), code.Expression)
	}

	r := NewRunner()
	r.SetThis(map[string]interface{}{
		"a":      (*decimal.Big)(nil),
		"lookup": func(key string) (*decimal.Big, error) { return nil, nil }, // "not found"
	})

	// the same entry seen through the selector path is a plain null
	if v, err := eval(r, "this.a"); err != nil || !IsNull(v) {
		t.Errorf("this.a = %v, %v; want null, nil", v, err)
	}
	if v, err := eval(r, "a ?? 7"); err != nil || v != float64(7) {
		t.Errorf("a ?? 7 = %v, %v; want 7, nil", v, err)
	}
	// ... but the bare identifier does not give the map's value
	if v, err := eval(r, "a"); err != nil || !IsNull(v) {
		t.Errorf("a = %v, err = %v; want the (null) value stored in the data map and no error", v, err)
	}
	if v, err := eval(r, "a == null"); err != nil || v != true {
		t.Errorf("a == null = %v, err = %v; want true, nil", v, err)
	}

	// local assigned by an earlier evaluation, read by a later one
	_, err := eval(r, "$y = lookup('k')")
	if err != nil {
		t.Errorf("$y = lookup('k'): err = %v; want nil", err)
	}
	if _, ok := r.this["$y"]; !ok {
		t.Fatalf("local $y was not stored")
	}
	if v, err := eval(r, "$y"); err != nil || !IsNull(v) {
		t.Errorf("$y = %v, err = %v; want the (null) local assigned by the earlier evaluation", v, err)
	}
}
