package formula

import (
	"context"
	"fmt"
	"math"
	"testing"
)

// C20: "evaluations see exactly the current data map including locals assigned
// by earlier evaluations". A plain-map model of the runner says: evaluating the
// formula `k` yields data[k]; after `$l = k`, evaluating `$l` yields data[k].
func TestHuntC20_1(t *testing.T) {
	eval := func(r *Runner, src string) (res interface{}, err error) {
		defer func() {
			if p := recover(); p != nil {
				err = fmt.Errorf("panic: %v", p)
			}
		}()
		code, err := ParseSourceCode([]byte(src))
		if err != nil {
			return nil, err
		}
		return r.Resolve(context.Background(), code.Expression)
	}

	data := map[string]interface{}{
		"a": 1.2345678901234567e-300,     // ordinary normal float64, 17 significant digits
		"b": 2.2250738585072014e-308,     // smallest normal float64
		"c": math.SmallestNonzeroFloat64, // 5e-324
		"d": math.Inf(-1),
		"e": 1e-300, // control: this one works
	}
	model := map[string]interface{}{}
	for k, v := range data {
		model[k] = v
	}

	r := NewRunner()
	r.SetThis(data)
	for _, k := range []string{"a", "b", "c", "d", "e"} {
		// evaluation of a bare data entry
		got, err := eval(r, k)
		if err != nil {
			t.Errorf("eval %q: unexpected error %v", k, err)
		} else if got != model[k] {
			t.Errorf("eval %q = %v, but the data map holds %v", k, got, model[k])
		}
		// the formula itself agrees the value is not what Resolve reports
		if k != "d" {
			pos, _ := eval(r, k+" > 0")
			t.Logf("%s > 0 evaluates to %v", k, pos)
		} else {
			neg, _ := eval(r, k+" < 0")
			t.Logf("%s < 0 evaluates to %v", k, neg)
		}
		// copy into a local in one evaluation, read it back in a later one
		local := "$l_" + k
		if _, err := eval(r, local+" = "+k); err != nil {
			t.Errorf("assign %s: %v", local, err)
		}
		model[local] = model[k]
		got, err = eval(r, local)
		if err != nil {
			t.Errorf("eval %q: unexpected error %v", local, err)
		} else if got != model[local] {
			t.Errorf("eval %q = %v, but the local was assigned %v", local, got, model[local])
		}
	}
}
