package formula

import (
	"context"
	"fmt"
	"testing"
)

// C20: "Over any sequence of operations on one runner - ... and using the
// auxiliary set/get store - ... every get equals what a simple model gives".
// Runner is an exported struct; its zero value is "a runner without a map".
// SetThisValue lazily creates the data map on such a runner (as the statement
// promises), formulas evaluate on it, Get works on it - but Set does not.
func TestHuntC20_3(t *testing.T) {
	r := &Runner{} // or: var r Runner / new(Runner)
	model := map[string]interface{}{}

	// data side works on the zero value
	r.SetThisValue("a", 1)
	code, err := ParseSourceCode([]byte("$x = a + 1, $x"))
	if err != nil {
		t.Fatal(err)
	}
	if v, err := r.Resolve(context.Background(), code.Expression); err != nil || v != float64(2) {
		t.Fatalf("evaluation on zero-value runner: %v, %v", v, err)
	}
	if got := r.Get("k"); got != model["k"] {
		t.Fatalf("Get before Set = %v, want %v", got, model["k"])
	}

	// auxiliary store
	err = func() (err error) {
		defer func() {
			if p := recover(); p != nil {
				err = fmt.Errorf("PANIC: %v", p)
			}
		}()
		r.Set("k", 9)
		return nil
	}()
	model["k"] = 9
	if err != nil {
		t.Errorf("Set(\"k\", 9) on a runner without maps: %v", err)
	}
	if got := r.Get("k"); got != model["k"] {
		t.Errorf("Get(\"k\") = %v, model gives %v", got, model["k"])
	}
}
