package formula

import (
	"context"
	"testing"
)

// C16: "A bare name denotes ... the entry of that name in the data map ...
// Go int, int32, int64 and float64 values become numbers".
// Small but perfectly normal float64 entries read through a bare name or a
// member access come back as 0.
func TestHuntC16_4(t *testing.T) {
	for _, in := range []float64{1.2345678901234567e-300, 2.5e-308, 5e-324} {
		eval := func(src string) (interface{}, error) {
			code, err := ParseSourceCode([]byte(src))
			if err != nil {
				return nil, err
			}
			r := NewRunner()
			r.SetThis(map[string]interface{}{
				"x": in,
				"m": map[string]interface{}{"k": in},
			})
			return r.Resolve(context.Background(), code.Expression)
		}
		// control: inside the formula the number is positive, not zero
		if v, err := eval("x > 0"); err != nil || v != true {
			t.Errorf("in=%g: x > 0: want true, got %#v err=%v", in, v, err)
		}
		for _, src := range []string{"x", "this.x", "m.k"} {
			v, err := eval(src)
			if err != nil {
				t.Errorf("in=%g: %s: unexpected error %v", in, src, err)
				continue
			}
			if v != in {
				t.Errorf("in=%g: %s: want %g back, got %#v", in, src, in, v)
			}
		}
	}
}
