package formula

import (
	"context"
	"fmt"
	"testing"
)

// C16: "`x.k` reads ... exported field k of a struct ... A missing key, a
// missing name, and member access on null all yield null rather than an error,
// so dotted chains are null-safe".
// Name is an exported (promoted) field of the struct value x; the embedded
// pointer it is promoted through is nil. x.Base is null and x.Base.Name is
// null, but x.Name panics inside reflect instead of yielding null.
func TestHuntC16_2(t *testing.T) {
	type Base struct{ Name string }
	type Doc struct {
		*Base
		Title string
	}
	eval := func(src string, x interface{}) (res interface{}, err error) {
		defer func() {
			if p := recover(); p != nil {
				err = fmt.Errorf("PANIC: %v", p)
			}
		}()
		code, perr := ParseSourceCode([]byte(src))
		if perr != nil {
			return nil, perr
		}
		r := NewRunner()
		r.SetThis(map[string]interface{}{"x": x})
		return r.Resolve(context.Background(), code.Expression)
	}

	// controls: promoted field readable when the embedded pointer is set
	if v, err := eval("x.Name", Doc{Base: &Base{Name: "n"}, Title: "t"}); err != nil || v != "n" {
		t.Errorf("x.Name (Base set): want \"n\", got %#v err=%v", v, err)
	}
	x := Doc{Title: "t"} // embedded *Base is nil
	if v, err := eval("x.Title", x); err != nil || v != "t" {
		t.Errorf("x.Title: want \"t\", got %#v err=%v", v, err)
	}
	if v, err := eval("x.Base.Name", x); err != nil || v != nil {
		t.Errorf("x.Base.Name: want null, got %#v err=%v", v, err)
	}
	// violation
	if v, err := eval("x.Name", x); err != nil || v != nil {
		t.Errorf("x.Name (Base nil): want null (null-safe member access), got %#v err=%v", v, err)
	}
}
