package formula

import (
	"context"
	"fmt"
	"testing"

	"github.com/ericlagergren/decimal"
)

// C16: "typed nil pointers are null for member access and equal to null".
// A typed nil *decimal.Big in the data map (an optional decimal amount that is
// absent) is a typed nil pointer, so `x == null` must be true and `x != null`
// false. The unchanged code panics with a nil pointer dereference instead.
func TestHuntC16_1(t *testing.T) {
	var amount *decimal.Big // typed nil pointer
	eval := func(src string) (res interface{}, err error) {
		defer func() {
			if p := recover(); p != nil {
				err = fmt.Errorf("PANIC: %v", p)
			}
		}()
		code, perr := ParseSourceCode([]byte(src))
		if perr != nil {
			return nil, perr
		}
		r := NewRunner()
		r.SetThis(map[string]interface{}{"x": amount})
		return r.Resolve(context.Background(), code.Expression)
	}

	// member access half of the clause holds (control)
	if v, err := eval("x.k"); err != nil || v != nil {
		t.Errorf("x.k: want null, got %#v err=%v", v, err)
	}
	if _, err := eval("x!.k"); err == nil {
		t.Errorf("x!.k: want error because x is null")
	}
	// symmetric form works (control)
	if v, err := eval("null == x"); err != nil || v != true {
		t.Errorf("null == x: want true, got %#v err=%v", v, err)
	}
	// equal-to-null half is violated
	if v, err := eval("x == null"); err != nil || v != true {
		t.Errorf("x == null: want true, got %#v err=%v", v, err)
	}
	if v, err := eval("x != null"); err != nil || v != false {
		t.Errorf("x != null: want false, got %#v err=%v", v, err)
	}
}
