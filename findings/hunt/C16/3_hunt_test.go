package formula

import (
	"context"
	"math"
	"testing"
)

// C16: "A bare name denotes ... the entry of that name in the data map ...
// Go int, int32, int64 and float64 values become numbers".
// The float64 entry -Inf read through the bare name x comes back as +Inf.
func TestHuntC16_3(t *testing.T) {
	eval := func(src string) (interface{}, error) {
		code, err := ParseSourceCode([]byte(src))
		if err != nil {
			return nil, err
		}
		r := NewRunner()
		r.SetThis(map[string]interface{}{
			"x": math.Inf(-1),
			"m": map[string]interface{}{"k": math.Inf(-1)},
		})
		return r.Resolve(context.Background(), code.Expression)
	}
	// control: inside the formula the number is negative
	if v, err := eval("x < 0"); err != nil || v != true {
		t.Errorf("x < 0: want true, got %#v err=%v", v, err)
	}
	for _, src := range []string{"x", "this.x", "m.k"} {
		v, err := eval(src)
		if err != nil {
			t.Errorf("%s: unexpected error %v", src, err)
			continue
		}
		f, ok := v.(float64)
		if !ok || !math.IsInf(f, -1) {
			t.Errorf("%s: data entry is float64 -Inf, want -Inf back, got %#v", src, v)
		}
	}
}
