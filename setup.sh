#!/bin/sh
# Builds the verifier offline from the sources in /verif/fvc.
set -e
cd "$(dirname "$0")/fvc"
export GOFLAGS=-mod=mod GOPROXY=off GOSUMDB=off GOTOOLCHAIN=local
mkdir -p ../bin
go build -o ../bin/fvc .
