#!/bin/sh
# Must-pass corpus: behaviour-preserving maintenance edits (renamed locals, swapped exclusive
# cases, inverted conditions, extracted helpers, inlined temporaries, rewritten loop headers)
# written by independent sub-agents. Each is applied to a scratch copy of /repo (outside /repo
# and /verif, removed afterwards); every obligation of every function must still discharge.
# Usage: selftest/benign.sh [pattern]
V=$(cd "$(dirname "$0")/.." && pwd)
pat=${1:-}
rc=0
SNAP=$(mktemp -d /tmp/fvc-snap.XXXXXX)
mkdir -p "$SNAP/repo" "$SNAP/spec"; cp /repo/*.go /repo/go.mod /repo/go.sum "$SNAP/repo/"; cp "$V"/spec/* "$SNAP/spec/"; cp "$V/bin/fvc" "$SNAP/fvc"
export TRY_SRC="$SNAP/repo" TRY_SPEC="$SNAP/spec" TRY_FVC="$SNAP/fvc"
trap 'rm -rf "$SNAP"' EXIT
# obligations that fail on the unchanged snapshot (the known findings of known_findings.json) are not alarms
base=$(FVC_REPO="$SNAP/repo" FVC_VERIF="$SNAP/verif" FVC_SPEC="$SNAP/spec" FVC_SCRATCH="$SNAP/scratch" "$SNAP/fvc" all 2>&1 | grep -E '^  \S+#' | awk '{print $1}' | sort -u)
[ -n "$base" ] && echo "BENIGN baseline (unchanged tree) fails: $base"
for f in "$V"/selftest/benign/*${pat}*.diff; do
  c=$(basename "$f" .diff)
  out=$("$V/tools/try.sh" "$f" all 2>&1)
  fails=$(echo "$out" | grep -E '^  \S+#' | awk '{print $1}' | sort -u | grep -vxF "${base:-@none@}" | head -4 | tr '\n' ' ')
  eng=$(echo "$out" | grep -E '^   ! [^n]' | head -2 | tr '\n' ' ')
  if [ -n "$fails$eng" ]; then echo "BENIGN $c: FALSE ALARM: $fails $eng"; rc=1; else echo "BENIGN $c: quiet ($(echo "$out" | tail -1))"; fi
done
exit $rc
