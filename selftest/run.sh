#!/bin/sh
# Must-fail corpus: each mutant patch is applied to a scratch copy of /repo (outside /repo
# and /verif, removed afterwards); the named property's check must then report a VIOLATION.
# Usage: selftest/run.sh [pattern]
V=$(cd "$(dirname "$0")/.." && pwd)
pat=${1:-}
fail=0
# work on a snapshot so that edits made while this runs do not disturb it
SNAP=$(mktemp -d /tmp/fvc-snap.XXXXXX)
mkdir -p "$SNAP/repo" "$SNAP/spec"; cp /repo/*.go /repo/go.mod /repo/go.sum "$SNAP/repo/"; cp "$V"/spec/* "$SNAP/spec/"; cp "$V/bin/fvc" "$SNAP/fvc"; cp "$V/known_findings.json" "$SNAP/"
trap 'rm -rf "$SNAP"' EXIT
for m in "$V"/selftest/mutants/*${pat}*.patch "$V"/seeded/*${pat}*/patch.diff; do
  [ -f "$m" ] || continue
  case "$m" in
    */seeded/*) prop=$(python3 -c "import json,sys;print(json.load(open(sys.argv[1]))['property'])" "$(dirname "$m")/meta.json"); name=$(basename "$(dirname "$m")");;
    *) name=$(basename "$m" .patch); prop=${name%%-*};;
  esac
  S=$(mktemp -d /tmp/fvc-selftest.XXXXXX)
  mkdir -p "$S/repo" "$S/verif"; cp "$SNAP"/repo/* "$S/repo/"; cp "$SNAP/known_findings.json" "$S/verif/"
  if ! (cd "$S/repo" && patch -p1 -s < "$m"); then echo "SELFTEST $name: patch does not apply"; fail=1; rm -rf "$S"; continue; fi
  if ! (cd "$S/repo" && GOFLAGS=-mod=mod GOPROXY=off GOSUMDB=off go test -vet=off -count=1 ./... >/dev/null 2>&1); then echo "SELFTEST $name: mutant does not pass the baseline tests (not a valid mutant)"; fi
  out=$(FVC_REPO="$S/repo" FVC_VERIF="$S/verif" FVC_SPEC="$SNAP/spec" FVC_SCRATCH="$S/scratch" "$SNAP/fvc" check -p "$prop" -tier quick 2>&1)
  rc=$?
  if [ $rc -eq 1 ] && echo "$out" | grep -q "^VIOLATION property=$prop"; then
    echo "SELFTEST $name: detected ($(echo "$out" | grep -c '^VIOLATION') violation lines; first: $(echo "$out" | grep -A1 '^VIOLATION' | sed -n 2p | sed 's/^ *//'))"
  else
    echo "SELFTEST $name: MISSED (rc=$rc)"; fail=1
  fi
  rm -rf "$S"
done
exit $fail
