#!/bin/sh
# Canaries: each genuine defect that was repaired by a "fix:" commit in /repo, re-introduced on a
# scratch copy (the fix reverted). Every canary must make at least one obligation fail.
# Usage: selftest/canaries.sh [pattern]      prints, per canary, the failing obligations
V=$(cd "$(dirname "$0")/.." && pwd)
pat=${1:-}
rc=0
# work on a snapshot so that edits made while this runs do not disturb it
SNAP=$(mktemp -d /tmp/fvc-snap.XXXXXX)
mkdir -p "$SNAP/repo" "$SNAP/spec"; cp /repo/*.go /repo/go.mod /repo/go.sum "$SNAP/repo/"; cp "$V"/spec/* "$SNAP/spec/"; cp "$V/bin/fvc" "$SNAP/fvc"
export TRY_SRC="$SNAP/repo" TRY_SPEC="$SNAP/spec" TRY_FVC="$SNAP/fvc"
trap 'rm -rf "$SNAP"' EXIT
# short solver limits: a canary only has to show a failure; obligations that already fail under
# these limits on the unchanged snapshot (none expected) are not counted
export FVC_LIMITS=4,15
base=$(FVC_REPO="$SNAP/repo" FVC_VERIF="$SNAP/verif" FVC_SPEC="$SNAP/spec" FVC_SCRATCH="$SNAP/scratch" "$SNAP/fvc" all 2>&1 | grep -E '^  \S+#' | awk '{print $1}' | sort -u)
[ -n "$base" ] && echo "CANARY baseline (unchanged tree, short limits) already fails: $base"
for f in "$V"/selftest/canaries/*${pat}*.patch; do
  c=$(basename "$f" .patch)
  out=$("$V/tools/try.sh" "$f" all 2>&1)
  fails=$(echo "$out" | grep -E '^  \S+#' | awk '{print $1}' | sort -u | grep -vxF "$base" | head -4 | tr '\n' ' ')
  eng=$(echo "$out" | grep -E '^   !' | head -2 | tr '\n' ' ')
  if [ -n "$fails$eng" ]; then echo "CANARY $c: detected: $fails $eng"; else echo "CANARY $c: MISSED ($(echo "$out" | tail -1))"; rc=1; fi
done
exit $rc
