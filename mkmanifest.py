#!/usr/bin/env python3
# Regenerates MANIFEST.json from the table below.
import json, subprocess

import os
exec(open(os.path.join(os.path.dirname(os.path.abspath(__file__)), 'claims.py')).read())
na = {}
props = [json.loads(l) for l in open('/verif/properties.jsonl')]
for p in props:
    if p['id'] not in claimed:
        na[p['id']] = not_claimed.get(p['id'], "not yet under contract in this revision of /verif (work in progress; see DESIGN.md section 5 for the plan)")

hook_commits = subprocess.run(['git','-C','/repo','log','--format=%H %s'],capture_output=True,text=True).stdout.splitlines()
hooks = [l.split()[0] for l in hook_commits if 'verif hook' in l]

m = {
 "version": 1,
 "setup_cmd": "./setup.sh",
 "hooks": {
   "guard": "verif",
   "enable": "go build tag 'verif' (adds only the comment-only file /repo/contracts_verif.go, read by fvc; nothing is compiled differently)",
   "baseline_off_cmd": "cd /repo && GOFLAGS=-mod=mod GOPROXY=off GOSUMDB=off go test -vet=off -count=1 ./...",
   "source_commits": hooks,
   "add_only": True
 },
 "engines": [{"name": "fvc", "path": "/verif/fvc", "serves_properties": sorted(claimed), "kind_free_text": "contract-based deductive verifier: weakest-precondition VC generation over go/ssa of /repo's working tree, contracts in /repo/contracts_verif.go and /verif/spec/*.fvs, obligations discharged by z3/cvc5"}],
 "checks": [],
 "not_applicable": [{"property_id": k, "reason": v} for k, v in sorted(na.items())],
 "notes": "All checks rebuild the SSA of /repo's working tree on every run; nothing is cached."
}
for pid in sorted(claimed):
    text, note = claimed[pid]
    m["checks"].append({
      "property_id": pid,
      "quick_cmd": f"./bin/fvc check -p {pid} -tier quick",
      "thorough_cmd": f"./bin/fvc check -p {pid} -tier thorough",
      "evidence_file": f"/verif/evidence/{pid}.json",
      "replay_cmd_template": "./bin/fvc replay {path}",
      "engine": "fvc",
      "level_claimed": {"category": "proof", "text": text, "design_ref": "DESIGN.md section 5 " + pid},
      "level_note": note,
      "technique": "contract-based deductive verification: WP verification conditions generated from go/ssa of the real code, discharged by SMT (z3, cvc5)"
    })
json.dump(m, open('/verif/MANIFEST.json','w'), indent=1)
print("claimed", sorted(claimed), "na", len(na))
