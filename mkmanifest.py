#!/usr/bin/env python3
# Regenerates MANIFEST.json from the table below.
import json, subprocess

claimed = {
 "C01": ("ParseSourceCode and the 60+ functions it reaches (scanner, parser, diagnostics, line table) are under contract: no panic escapes (the deferred recover is modelled; the end-of-input assertion is the only exceptional exit and is converted to an error), every loop has a decreasing variant and the mutual recursion a lexicographic measure (remaining input, rank), so parsing terminates for every byte string; err == nil iff a tree with zero diagnostics is returned; every node constructor establishes non-nil operands / present lists / non-empty names-or-diagnostic, and a normal return has consumed the input up to the EndOfFile token.",
         "Assumed: utf8.DecodeRune, fmt/strconv/strings/json/reflect contracts (listed in evidence); keyword table contents; lifting per-constructor postconditions to 'every node of the tree' is a meta-level structural induction (nodes are written only while fresh: frame obligations). Not decided: running time proportional to input length; stack depth."),
 "C02": ("The binary precedence table equals the ladder of the statement (spec function prec written from the statement); at every node construction site the local grammar-class inequalities are call-site obligations (left operand class >= 1+prec(op), right operand class >= 2+prec(op) for ladder operators; assignment/conditional/comma layers; prefix/typeof operands of class >= 12; postfix targets of class >= 13); member access and call parentheses are asserted to start on the line of their target; a prefix expression may start a list element (first(tok) ==> isStartOfExpression); a missing terminal always leaves a diagnostic.",
         "Assumed: the token stream is what Scan's contract says; uniqueness of the tree determined by the local inequalities is a meta-level argument (DESIGN 4.2 M-PREC, M-TREE). List punctuation rules (trailing comma, spread position) are covered only by 'missing terminal => diagnostic'."),
 "C14": ("Scanner.Scan and every scanner helper are under contract: no panic for any byte string and any position, every loop terminates, tokens tile the input (startPos == previous pos, tokenPos <= pos, progress unless EOF, EOF exactly at the end), range-table lookup is exactly membership, identifier classes are the ASCII sets plus the two ES5 tables; the same-line rule for '.', '!.' and '(' is asserted in the parser.",
         "Assumed: utf8.DecodeRune contract; keyword table contents (KeywordFromString trusted until init is under contract); in-source ES5 tables are the ES5 tables; scanner used with a nil callback or the parser's callback. Not yet under contract: the longest-match operator table as a functional postcondition. Not decided: 'spacing never changes the parse' (relational)."),
 "C15": ("Every parse function ensures end(result) == start of the next token and pos(result) == start of its first token (or of its left operand); constructors require children in source order inside the node; diagnostics have non-negative start/length (object invariant, fields written only by CreateFileDiagnostic); ComputeLineStarts returns a strictly ascending table starting at 0 inside the text, BinarySearch and PositionFromOffsetWithCache locate the line with lineStarts[Line] <= offset < lineStarts[Line+1] and Column == offset - lineStarts[Line].",
         "Not yet under contract: which byte positions are line starts (the six line-break forms), the text of the returned error, start+length <= len(text) for diagnostics. Not decided: re-parsing the text of a sub-expression (relational)."),
}
na = {}
props = [json.loads(l) for l in open('/verif/properties.jsonl')]
for p in props:
    if p['id'] not in claimed:
        na[p['id']] = "not yet under contract in this revision of /verif (work in progress; see DESIGN.md section 5 for the plan)"

hook_commits = subprocess.run(['git','-C','/repo','log','--format=%H %s'],capture_output=True,text=True).stdout.splitlines()
hooks = [l.split()[0] for l in hook_commits if 'verif hook' in l]

m = {
 "version": 1,
 "setup_cmd": "./setup.sh",
 "hooks": {
   "guard": "verif",
   "enable": "go build tag 'verif' (adds only the comment-only file /repo/contracts_verif.go, read by fvc; nothing is compiled differently)",
   "baseline_off_cmd": "cd /repo && GOFLAGS=-mod=mod GOPROXY=off GOSUMDB=off go test -vet=off -count=1 ./...",
   "source_commits": hooks,
   "add_only": True
 },
 "engines": [{"name": "fvc", "path": "/verif/fvc", "serves_properties": sorted(claimed), "kind_free_text": "contract-based deductive verifier: weakest-precondition VC generation over go/ssa of /repo's working tree, contracts in /repo/contracts_verif.go and /verif/spec/*.fvs, obligations discharged by z3/cvc5"}],
 "checks": [],
 "not_applicable": [{"property_id": k, "reason": v} for k, v in sorted(na.items())],
 "notes": "All checks rebuild the SSA of /repo's working tree on every run; nothing is cached."
}
for pid in sorted(claimed):
    text, note = claimed[pid]
    m["checks"].append({
      "property_id": pid,
      "quick_cmd": f"./bin/fvc check -p {pid} -tier quick",
      "thorough_cmd": f"./bin/fvc check -p {pid} -tier thorough",
      "evidence_file": f"/verif/evidence/{pid}.json",
      "replay_cmd_template": "./bin/fvc replay {path}",
      "engine": "fvc",
      "level_claimed": {"category": "proof", "text": text, "design_ref": "DESIGN.md section 5 " + pid},
      "level_note": note,
      "technique": "contract-based deductive verification: WP verification conditions generated from go/ssa of the real code, discharged by SMT (z3, cvc5)"
    })
json.dump(m, open('/verif/MANIFEST.json','w'), indent=1)
print("claimed", sorted(claimed), "na", len(na))
