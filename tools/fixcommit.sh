#!/bin/sh
# usage: fixcommit.sh "<message>" file...   (commits only the named source files of /repo)
msg=$1; shift
cd /repo || exit 1
export GOFLAGS=-mod=mod GOPROXY=off GOSUMDB=off GOTOOLCHAIN=local
go test -vet=off -count=1 ./... | tail -1 | grep -q '^ok' || { echo "baseline tests fail"; exit 1; }
git add "$@" && git commit -q -m "$msg" -- "$@" && git log --format=%h -1
