#!/bin/sh
# usage: hookcommit.sh "<what>"   (commits only the comment-only contract file)
cd /repo || exit 1
git add contracts_verif.go && git commit -q -m "verif hook: $1 (comment-only, tag verif)" -- contracts_verif.go && git log --format=%h -1
