#!/bin/sh
# usage: fixrecord.sh <Cxx> "<fix commit message (starts with fix:)>" "<hook commit note>" "<failing obligation>" "<what failed on the real code>" file...
# Commits the repair (only the named /repo files) and the contract change separately, stores the
# reverted fix as a canary, and records the defect in known_findings.json (fixed) and DESIGN.md section 10.
V=$(cd "$(dirname "$0")/.." && pwd)
P=$1; MSG=$2; HOOK=$3; OB=$4; WHAT=$5; shift 5
F=$("$V/tools/fixcommit.sh" "$MSG" "$@") || { echo "fix commit failed: $F"; exit 1; }
"$V/tools/hookcommit.sh" "$HOOK" >/dev/null
git -C /repo diff "$F" "$F~1" -- "$@" > "$V/selftest/canaries/$F.patch"
python3 - "$F" "$P" "$OB" "$WHAT" <<'PY'
import json,sys
F,P,OB,WHAT=sys.argv[1:5]
p='/verif/known_findings.json'; d=json.load(open(p))
d['fixed'].append({"property":P,"commit":F,"obligation":OB,"what_failed":WHAT})
json.dump(d,open(p,'w'),indent=2)
p='/verif/DESIGN.md'; L=open(p).read().split('\n')
idx=[k for k,l in enumerate(L) if l.startswith('| `') and '` | C' in l and k>1250 and k<1400]
i=idx[-1]
L.insert(i+1,"| `%s` | %s | %s | `%s` |"%(F,P,WHAT.replace('|','\\|'),OB))
open(p,'w').write('\n'.join(L))
PY
echo "fix=$F"
