#!/bin/sh
# usage: seedconfirm.sh <Cxx> <a|b>
# Confirms a seeded change produced by a sub-agent (/tmp/seed/out/<Cxx>/<x>_patch.diff, <x>_demo_test.go,
# <x>_meta.json) in a scratch worktree of /repo: baseline suite passes, demo passes without the
# change, suite passes with the change, demo fails with the change. On success the change is
# kept as /verif/seeded/<Cxx>-<x>/.
V=$(cd "$(dirname "$0")/.." && pwd)
P=$1; X=$2
O=${SEED_OUT:-/tmp/seed/out}/$P
export GOFLAGS=-mod=mod GOPROXY=off GOSUMDB=off GOTOOLCHAIN=local
W=$(mktemp -d /tmp/seedconfirm.XXXXXX)
rmdir "$W"
git -C /repo worktree add --detach "$W" HEAD >/dev/null 2>&1 || { echo "worktree failed"; exit 2; }
cleanup() { git -C /repo worktree remove --force "$W" >/dev/null 2>&1; rm -rf "$W"; }
cd "$W" || exit 2
res=""
go test -vet=off -count=1 ./... >/dev/null 2>&1 && res="$res base=pass" || res="$res base=FAIL"
cp "$O/${X}_demo_test.go" seed_demo_test.go
go test -vet=off -count=1 -timeout 120s -run TestSeedDemo . >/dev/null 2>&1 && res="$res demo0=pass" || res="$res demo0=FAIL"
rm seed_demo_test.go
if git apply "$O/${X}_patch.diff" 2>/dev/null; then res="$res apply=ok"; else res="$res apply=FAIL"; fi
go test -vet=off -count=1 ./... >/dev/null 2>&1 && res="$res suite1=pass" || res="$res suite1=FAIL"
cp "$O/${X}_demo_test.go" seed_demo_test.go
go test -vet=off -count=1 -timeout 120s -run TestSeedDemo . >/tmp/seedconfirm.out 2>&1 && res="$res demo1=PASS(bad)" || res="$res demo1=fail"
cd /; cleanup
echo "$P-$X:$res"
case "$res" in
  " base=pass demo0=pass apply=ok suite1=pass demo1=fail")
    D=$V/seeded/$P-${SEED_SUFFIX:-$X}; mkdir -p "$D"
    cp "$O/${X}_patch.diff" "$D/patch.diff"; cp "$O/${X}_demo_test.go" "$D/demo_test.go"
    python3 - "$O/${X}_meta.json" "$D/meta.json" "$P" <<'PY'
import json,sys
try: m=json.load(open(sys.argv[1]))
except Exception as e: m={"summary":"(meta unreadable: %s)"%e}
out={"property":sys.argv[3],"summary":m.get("summary"),"needs":m.get("needs"),"functions":m.get("functions"),
 "confirmed":"tools/seedconfirm.sh in a scratch worktree of /repo HEAD: baseline suite passes; demo passes without the change; with the change the suite (go test -vet=off -count=1 ./...) still passes and the demo (go test -run TestSeedDemo) fails",
 "agent_commands":m.get("commands")}
json.dump(out,open(sys.argv[2],'w'),indent=1)
PY
    ;;
  *) echo "  NOT CONFIRMED"; tail -5 /tmp/seedconfirm.out;;
esac
rm -f /tmp/seedconfirm.out
