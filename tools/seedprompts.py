#!/usr/bin/env python3
# Writes the self-contained task text for one round of independent seeding agents.
# usage: tools/seedprompts.py <rounddir e.g. /tmp/seed3> C04 C08 ...
# Each agent gets only the property text and its own scratch worktree <rounddir>/<id>
# (contract comment file removed there); outputs go to <rounddir>/out/<id>/.
import json, glob, sys, os
R = sys.argv[1]
props = {json.loads(l)['id']: json.loads(l) for l in open('/verif/properties.jsonl')}
touched = {}
for d in glob.glob('/verif/seeded/*'):
    m = json.load(open(d + '/meta.json'))
    touched.setdefault(m['property'], []).extend(m.get('functions') or [])
os.makedirs(R + '/prompts', exist_ok=True)
for pid in sys.argv[2:]:
    p = props[pid]
    avoid = ', '.join(sorted(set(str(x) for x in touched.get(pid, []))))
    txt = f"""You are helping test a verification setup by acting as an adversarial developer. You work ONLY inside the scratch git worktree {R}/{pid} (a checkout of the Go package github.com/aundis/formula, a small expression-formula language: scanner.go, parser.go, runner.go (evaluator + builtins), resolve.go (referenced-field analysis), utilities.go, types.go). Do NOT read or touch /repo or /verif or any other directory except {R}/{pid} and your output directory {R}/out/{pid}.

Every shell command needs this environment first (no network):
  export GOFLAGS=-mod=mod GOPROXY=off GOSUMDB=off GOTOOLCHAIN=local
The existing test suite is run with:  cd {R}/{pid} && go test -vet=off -count=1 ./...   (38 tests, all pass now).

Here is a semantic property the library is supposed to satisfy:

  {p['id']} — {p['title']}
  {p['statement']}

Your job: produce TWO different, independent source changes (call them 'a' and 'b'; each a small realistic edit a developer might plausibly make — a refactor gone wrong, an 'optimisation', an off-by-one, a swapped operand, a cache, a wrong boundary, a dropped or weakened check, a helper that is subtly not equivalent, two cooperating edits in different functions that each look fine alone) to the non-test .go files of the package such that, for EACH change separately:
  1. the package still compiles and the existing test suite still passes completely, and
  2. the property above is genuinely BROKEN by the change (for some input the stated behaviour no longer holds), and
  3. the breakage needs something specific to manifest — an unusual input, a particular multi-step sequence of operations, a boundary value, two cooperating edits — NOT something ordinary use or the existing tests would expose at once. Prefer changes that keep the code looking clean and 'obviously fine' (e.g. semantically tiny edits inside existing expressions, changed constants or comparison operators, reordered conditions, edits in helper functions far from the property's obvious implementation site), and
  4. you provide a demonstration: a Go test file (package formula, a single func TestSeedDemo(t *testing.T)) that FAILS with the change applied and PASSES on the unchanged code. The demo must only use behaviour that the property statement promises (so it passes on the original code — verify that!).
An earlier round of this exercise already produced changes in these functions: {avoid}. Do something different: other functions, or a different mechanism in them. The two changes should differ from each other in mechanism. Do not edit *_test.go files as part of a change; do not change go.mod.

Procedure for each change X in (a, b):
  - start from a clean tree: cd {R}/{pid} && git checkout -- . && git clean -fdq
  - write the demo test to {R}/out/{pid}/X_demo_test.go; copy it into the worktree as seed_demo_test.go, run `go test -vet=off -count=1 -run TestSeedDemo .` and confirm it PASSES on the unchanged code; then remove it from the worktree again
  - make the edit; run the full existing suite and confirm it passes; save the diff with `git diff > {R}/out/{pid}/X_patch.diff` (the diff must contain only your edit to non-test source files)
  - copy the demo into the worktree again, run it, confirm it FAILS with the change; remove it
  - write {R}/out/{pid}/X_meta.json with keys: property ("{pid}"), summary (one sentence: what was changed), needs (what specific input/sequence/boundary is needed for the breakage to manifest), functions (list of function names edited), commands (the commands you ran and their outcome)
  - finally restore the worktree: git checkout -- . && git clean -fdq

If the unchanged code already violates the property for the input you had in mind (the demo fails on the original code), that input is not usable: pick a different angle (and mention what you saw in your final answer). Be careful that the demo really passes on the original code and really fails with the patch; report the exact outputs. Your final answer should be a short summary of the two changes and confirmation of the four checks for each."""
    open(f'{R}/prompts/{pid}.txt', 'w').write(txt)
print('ok')
