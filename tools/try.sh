#!/bin/sh
# usage: try.sh <patch> <fvc args...>   runs fvc against a scratch copy of /repo with the patch applied
V=$(cd "$(dirname "$0")/.." && pwd)
p=$(realpath "$1"); shift
S=$(mktemp -d /tmp/fvc-try.XXXXXX)
mkdir -p "$S/repo"; cp -r /repo/*.go /repo/go.mod /repo/go.sum "$S/repo/"
(cd "$S/repo" && patch -p1 -s < "$p") || { echo "patch does not apply"; rm -rf "$S"; exit 2; }
FVC_REPO="$S/repo" FVC_VERIF="$S/verif" FVC_SPEC="$V/spec" FVC_SCRATCH="$S/scratch" "$V/bin/fvc" "$@"
rc=$?
rm -rf "$S"
exit $rc
