#!/bin/sh
# usage: try.sh <patch> <fvc args...>   runs fvc against a scratch copy of /repo with the patch applied
# (TRY_SRC / TRY_SPEC / TRY_FVC select a snapshot of the sources, specs and verifier to use)
V=$(cd "$(dirname "$0")/.." && pwd)
p=$(realpath "$1"); shift
SRC=${TRY_SRC:-/repo}; SPEC=${TRY_SPEC:-$V/spec}; FVC=${TRY_FVC:-$V/bin/fvc}
S=$(mktemp -d /tmp/fvc-try.XXXXXX)
mkdir -p "$S/repo"; cp "$SRC"/*.go "$SRC"/go.mod "$SRC"/go.sum "$S/repo/"
(cd "$S/repo" && patch -p1 -s < "$p") || { echo "patch does not apply"; rm -rf "$S"; exit 2; }
FVC_REPO="$S/repo" FVC_VERIF="$S/verif" FVC_SPEC="$SPEC" FVC_SCRATCH="$S/scratch" "$FVC" "$@"
rc=$?
rm -rf "$S"
exit $rc
