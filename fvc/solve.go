package main

import (
	"bytes"
	"context"
	"crypto/sha1"
	"fmt"
	"go/types"
	"os"
	"os/exec"
	"path/filepath"
	"sort"
	"strings"
	"sync"
	"time"
)

type SolveResult struct {
	Relaxed bool   // model comes from the query with quantified assumptions dropped
	Status  string // unsat | sat | unknown | timeout | error
	Backend string
	Seconds float64
	Model   string
	Outputs map[string]string
	File    string
}

type solverSpec struct {
	name string
	args func(timeoutS int, file string) []string
}

var solvers = map[string]solverSpec{
	"z3-new": {"z3-new", func(t int, f string) []string { return []string{fmt.Sprintf("-T:%d", t), f} }},
	"z3":     {"z3", func(t int, f string) []string { return []string{fmt.Sprintf("-T:%d", t), f} }},
	"cvc5": {"cvc5", func(t int, f string) []string {
		return []string{fmt.Sprintf("--tlimit=%d", t*1000), "--strings-exp", "--produce-models", f}
	}},
	// cvc5 with enumerative quantifier instantiation: finds witnesses that are ground terms of
	// the goal (e.g. the index len(result) for an element just appended)
	"cvc5-enum": {"cvc5", func(t int, f string) []string {
		return []string{fmt.Sprintf("--tlimit=%d", t*1000), "--strings-exp", "--produce-models", "--full-saturate-quant", f}
	}},
}

func (ob *Obligation) smt(withModel bool) string { return ob.smtOpt(withModel, false) }

func hasQuant(s string) bool {
	return strings.Contains(s, "(forall ") || strings.Contains(s, "(exists ")
}

func (ob *Obligation) smtOpt(withModel bool, relaxed bool) string {
	fc := ob.fc
	var sb strings.Builder
	sb.WriteString("; obligation " + ob.Name + "\n")
	if ob.Clause != "" {
		sb.WriteString("; " + strings.ReplaceAll(ob.Clause, "\n", " ") + "\n")
	}
	sb.WriteString("; path " + ob.Path + "\n")
	sb.WriteString("(set-option :produce-models true)\n(set-logic ALL)\n")
	sb.WriteString(fc.d.Text())
	sb.WriteString(fc.typeFacts())
	// assumed axioms: only those that share an uninterpreted spec symbol with this query
	var body strings.Builder
	for _, p := range ob.PC {
		body.WriteString(p.S)
	}
	body.WriteString(ob.Goal.S)
	bodyS := body.String()
	for _, a := range relevantAxioms(fc.axioms, bodyS) {
		bodyS += a.S
	}
	for _, a := range fc.globalAxioms {
		if relaxed && hasQuant(a.S) {
			continue
		}
		if sharesSymbol(a.S, bodyS) {
			sb.WriteString("(assert " + a.S + ")\n")
		}
	}
	for _, a := range relevantAxioms(fc.axioms, bodyS) {
		if relaxed && hasQuant(a.S) {
			continue
		}
		sb.WriteString("(assert " + a.S + ")\n")
	}
	for _, p := range ob.PC {
		if relaxed && hasQuant(p.S) {
			continue
		}
		sb.WriteString("(assert " + p.S + ")\n")
	}
	if ob.MustSat {
		sb.WriteString("(assert " + ob.Goal.S + ")\n")
	} else {
		sb.WriteString("(assert (not " + ob.Goal.S + "))\n")
	}
	sb.WriteString("(check-sat)\n")
	if withModel {
		sb.WriteString("(get-model)\n")
	}
	return sb.String()
}

func runSolver(name string, timeoutS int, file string) (status, out string, secs float64) {
	return runSolverCtx(context.Background(), name, timeoutS, file)
}

func runSolverCtx(parent context.Context, name string, timeoutS int, file string) (status, out string, secs float64) {
	sp := solvers[name]
	ctx, cancel := context.WithTimeout(parent, time.Duration(timeoutS+5)*time.Second)
	defer cancel()
	cmd := exec.CommandContext(ctx, sp.name, sp.args(timeoutS, file)...)
	var buf bytes.Buffer
	cmd.Stdout = &buf
	cmd.Stderr = &buf
	t0 := time.Now()
	err := cmd.Run()
	secs = time.Since(t0).Seconds()
	out = buf.String()
	first := strings.TrimSpace(strings.SplitN(out, "\n", 2)[0])
	switch first {
	case "unsat", "sat", "unknown":
		return first, out, secs
	case "timeout":
		return "timeout", out, secs
	}
	if ctx.Err() != nil || strings.Contains(out, "timeout") || strings.Contains(out, "interrupted") {
		return "timeout", out, secs
	}
	_ = err
	return "error", out, secs
}

type Solver struct {
	dir     string
	quickS  int
	slowS   int
	workers int
}

func (s *Solver) solveAll(obs []*Obligation) {
	os.MkdirAll(s.dir, 0o755)
	if len(obs) > 0 {
		obs[0].fc.u.closeTypeIDs() // no type id is allocated once the workers run
	}
	var wg sync.WaitGroup
	ch := make(chan *Obligation)
	for i := 0; i < s.workers; i++ {
		wg.Add(1)
		go func() {
			defer wg.Done()
			for ob := range ch {
				s.solve(ob)
			}
		}()
	}
	for _, ob := range obs {
		ch <- ob
	}
	close(ch)
	wg.Wait()
}

func (s *Solver) solve(ob *Obligation) {
	want := "unsat"
	if ob.MustSat {
		want = "sat"
	}
	if !ob.MustSat && ob.Goal.S == "true" {
		ob.Result = &SolveResult{Status: "unsat", Backend: "syntactic"}
		return
	}
	text := ob.smt(true)
	h := sha1.Sum([]byte(text))
	file := filepath.Join(s.dir, fmt.Sprintf("%s-%x.smt2", sanitize(ob.Name), h[:6]))
	if err := os.WriteFile(file, []byte(text), 0o644); err != nil {
		ob.Result = &SolveResult{Status: "error", Outputs: map[string]string{"io": err.Error()}}
		return
	}
	res := &SolveResult{Outputs: map[string]string{}, File: file}
	ob.Result = res
	total := 0.0
	slowS := s.slowS
	if ob.ShortLimit && slowS > 10 {
		slowS = 10
	}
	if os.Getenv("FVC_FAST") != "" {
		// development mode: one solver, short limit
		st, out, secs := runSolver("z3-new", 2, file)
		res.Status, res.Backend, res.Seconds = st, "z3-new", secs
		res.Outputs["z3-new"] = trimOut(out)
		if st == "sat" {
			res.Model = out
		}
		if st != "unsat" && st != "sat" {
			s.relax(ob, res)
		}
		return
	}
	// first: z3-new with the short limit (quantified goals skip this stage: another solver is
	// usually the one that decides them, and waiting for z3 to give up only adds latency)
	st, out, secs := "skipped", "", 0.0
	if !hasQuant(text) {
		st, out, secs = runSolver("z3-new", s.quickS, file)
	}
	total += secs
	res.Outputs["z3-new"] = trimOut(out)
	if st == want {
		res.Status, res.Backend, res.Seconds = st, "z3-new", total
		if st == "sat" {
			res.Model = out
		}
		if !ob.MustSat && os.Getenv("FVC_KEEP") == "" {
			os.Remove(file)
		}
		return
	}
	if st == "sat" || st == "unsat" {
		// definite answer of the wrong kind
		res.Status, res.Backend, res.Seconds, res.Model = st, "z3-new", total, out
		return
	}
	// race the others
	type r struct {
		name, st, out string
		secs          float64
	}
	racers := []string{"cvc5", "z3"}
	if hasQuant(text) {
		racers = []string{"z3-new", "cvc5-enum", "cvc5", "z3"}
	}
	rc := make(chan r, len(racers))
	rctx, rcancel := context.WithCancel(context.Background())
	for _, n := range racers {
		go func(n string) {
			st, out, secs := runSolverCtx(rctx, n, slowS, file)
			rc <- r{n, st, out, secs}
		}(n)
	}
	var results []r
	for i := 0; i < len(racers); i++ {
		x := <-rc
		results = append(results, x)
		res.Outputs[x.name] = trimOut(x.out)
		if x.st == want {
			break // first answer of the wanted kind wins; the others are stopped
		}
	}
	rcancel()
	for _, x := range results {
		if x.st == want {
			res.Status, res.Backend, res.Seconds = x.st, x.name, total+x.secs
			if !ob.MustSat && os.Getenv("FVC_KEEP") == "" {
				os.Remove(file)
			}
			return
		}
	}
	for _, x := range results {
		if x.st == "sat" || x.st == "unsat" {
			res.Status, res.Backend, res.Seconds, res.Model = x.st, x.name, total+x.secs, x.out
			return
		}
	}
	// last resort: z3-new with the long limit
	st, out, secs = runSolver("z3-new", slowS, file)
	res.Outputs["z3-new(long)"] = trimOut(out)
	if st == "sat" || st == "unsat" {
		res.Status, res.Backend, res.Seconds = st, "z3-new", total+secs
		if st == "sat" {
			res.Model = out
		}
		if st == want && !ob.MustSat {
			os.Remove(file)
		}
		return
	}
	res.Status, res.Seconds = "unknown", total+secs
	for _, x := range results {
		if x.st == "timeout" {
			res.Status = "timeout"
		}
	}
	s.relax(ob, res)
}

// relax: when no solver decides a goal whose assumptions contain quantifiers, ask for a
// model of the query with the quantified assumptions dropped. Such a model is only a
// candidate counterexample; it is believed only if it replays on the real code.
func (s *Solver) relax(ob *Obligation, res *SolveResult) {
	if ob.MustSat || hasQuant(ob.Goal.S) {
		return
	}
	text := ob.smtOpt(true, true)
	file := strings.TrimSuffix(res.File, ".smt2") + ".relaxed.smt2"
	if os.WriteFile(file, []byte(text), 0o644) != nil {
		return
	}
	st, out, _ := runSolver("z3-new", s.quickS, file)
	res.Outputs["z3-new(relaxed)"] = trimOut(out)
	if st == "sat" {
		res.Model = out
		res.Relaxed = true
	}
}

func trimOut(s string) string {
	if len(s) > 4000 {
		return s[:4000] + "\n...[truncated]"
	}
	return s
}

// typeFacts: ground facts about the type identifiers known to this run (kind of each type,
// whether it is a map type, whether values of it are comparable).
func (fc *FuncCtx) typeFacts() string {
	u := fc.u
	var sb strings.Builder
	_, hasKind := fc.d.decl["tid_kind"]
	_, hasMap := fc.d.decl["is_map_type"]
	_, hasCmp := fc.d.decl["known_comparable"]
	_, hasRKind := fc.d.decl["tid_rkind"]
	_, hasKey := fc.d.decl["tid_key"]
	_, hasElem := fc.d.decl["tid_elem"]
	ids := make([]int, 0, len(u.typeByID))
	for id := range u.typeByID {
		ids = append(ids, id)
	}
	sort.Ints(ids)
	if hasKind {
		sb.WriteString("(assert (= (tid_kind 0) 0))\n")
	}
	for _, id := range ids {
		t := u.typeByID[id]
		k := map[string]int{"bool": 1, "str": 2, "int": 3, "f64": 4, "ref": 5, "fn": 6, "oth": 7}[fc.anyKind(t)]
		if isPlain(t, types.Bool) {
			k = 1
		} else if isPlain(t, types.String) {
			k = 2
		} else if k == 1 || k == 2 {
			k = 7 // named bool/string types are boxed
		}
		if hasKind {
			fmt.Fprintf(&sb, "(assert (= (tid_kind %d) %d))\n", id, k)
		}
		if hasRKind {
			fmt.Fprintf(&sb, "(assert (= (tid_rkind %d) %d))\n", id, reflectKindOf(t))
		}
		if hasKey {
			if mt, ok := t.Underlying().(*types.Map); ok {
				fmt.Fprintf(&sb, "(assert (= (tid_key %d) %d))\n", id, u.typeID(mt.Key()))
			}
		}
		if hasElem {
			switch ut := t.Underlying().(type) {
			case *types.Map:
				fmt.Fprintf(&sb, "(assert (= (tid_elem %d) %d))\n", id, u.typeID(ut.Elem()))
			case *types.Slice:
				fmt.Fprintf(&sb, "(assert (= (tid_elem %d) %d))\n", id, u.typeID(ut.Elem()))
			case *types.Array:
				fmt.Fprintf(&sb, "(assert (= (tid_elem %d) %d))\n", id, u.typeID(ut.Elem()))
			case *types.Pointer:
				fmt.Fprintf(&sb, "(assert (= (tid_elem %d) %d))\n", id, u.typeID(ut.Elem()))
			}
		}
		if hasMap {
			_, isMap := t.Underlying().(*types.Map)
			fmt.Fprintf(&sb, "(assert (= (is_map_type %d) %v))\n", id, isMap)
		}
		if hasCmp {
			fmt.Fprintf(&sb, "(assert (= (known_comparable %d) %v))\n", id, types.Comparable(t))
		}
		for _, fn := range sortedKeys(fc.implFuns) {
			if _, isI := t.Underlying().(*types.Interface); isI {
				continue
			}
			fmt.Fprintf(&sb, "(assert (= (%s %d) %v))\n", fn, id, types.Implements(t, fc.implFuns[fn]))
		}
	}
	return sb.String()
}


// sharesSymbol: some spec-function (sf_), struct-field (fld_) or package-variable (global_)
// symbol of the axiom occurs in the text.
func sharesSymbol(axiom, text string) bool {
	for _, pre := range []string{"sf_", "fld_", "global_", "smapref!"} {
		i := 0
		for {
			j := strings.Index(axiom[i:], pre)
			if j < 0 {
				break
			}
			j += i
			k := j
			for k < len(axiom) && (axiom[k] == '_' || axiom[k] == '.' || axiom[k] == '!' || axiom[k] >= 'a' && axiom[k] <= 'z' || axiom[k] >= 'A' && axiom[k] <= 'Z' || axiom[k] >= '0' && axiom[k] <= '9') {
				k++
			}
			if strings.Contains(text, axiom[j:k]) {
				return true
			}
			i = k
		}
	}
	return false
}

// closeTypeIDs gives key and element types of every known composite type an id of their own.
func (u *Universe) closeTypeIDs() {
	for changed := true; changed; {
		n := len(u.typeByID)
		for id := 1; id <= n; id++ {
			switch ut := u.typeByID[id].Underlying().(type) {
			case *types.Map:
				u.typeID(ut.Key())
				u.typeID(ut.Elem())
			case *types.Slice:
				u.typeID(ut.Elem())
			case *types.Array:
				u.typeID(ut.Elem())
			case *types.Pointer:
				u.typeID(ut.Elem())
			}
		}
		changed = len(u.typeByID) != n
	}
}

// relevantAxioms: the function-wide axioms an obligation needs. A ground unfolding of a
// recursive spec function, (= (sf_f args) body), is needed only if the application it defines
// occurs in the obligation (or in the body of an unfolding that is itself needed); all other
// axioms (small facts about boxing, encodings, type kinds) are always included.
func relevantAxioms(axioms []*Term, text string) []*Term {
	type def struct {
		t    *Term
		head string
	}
	var defs []def
	var out []*Term
	for _, a := range axioms {
		if strings.HasPrefix(a.S, "(= (sf_") {
			// head: the first argument of =
			depth := 0
			end := -1
			for i := 3; i < len(a.S); i++ {
				if a.S[i] == '(' {
					depth++
				} else if a.S[i] == ')' {
					depth--
					if depth == 0 {
						end = i + 1
						break
					}
				}
			}
			if end > 0 {
				defs = append(defs, def{a, a.S[3:end]})
				continue
			}
		}
		out = append(out, a)
		text += a.S
	}
	used := make([]bool, len(defs))
	for changed := true; changed; {
		changed = false
		for i, d := range defs {
			if !used[i] && strings.Contains(text, d.head) {
				used[i] = true
				changed = true
				out = append(out, d.t)
				text += d.t.S
			}
		}
	}
	return out
}
