package main

// fvc check -p <property>: decide one property on the current tree.

import (
	"encoding/json"
	"flag"
	"fmt"
	"os"
	"os/exec"
	"path/filepath"
	"sort"
	"strconv"
	"strings"
	"time"

	"golang.org/x/tools/go/ssa"
)

type knownFindings struct {
	Fixed []map[string]interface{} `json:"fixed"`
	Known []struct {
		Property   string `json:"property"`
		Obligation string `json:"obligation"`
		What       string `json:"what_fails"`
		Input      string `json:"input"`
	} `json:"known"`
}

func loadKnown() *knownFindings {
	kf := &knownFindings{}
	data, err := os.ReadFile(filepath.Join(verifDir(), "known_findings.json"))
	if err == nil {
		json.Unmarshal(data, kf)
	}
	return kf
}

func hasTag(tags []string, p string) bool {
	for _, t := range tags {
		if t == p {
			return true
		}
	}
	return false
}

func contractMentions(c *Contract, p string) bool {
	if hasTag(c.Tags, p) || hasTag(c.PanicTags, p) {
		return true
	}
	for _, r := range c.Requires {
		if hasTag(r.Tags, p) {
			return true
		}
	}
	for _, r := range c.Ensures {
		if hasTag(r.Tags, p) {
			return true
		}
	}
	for _, a := range c.Asserts {
		if hasTag(a.Clause.Tags, p) {
			return true
		}
	}
	for _, l := range c.Loops {
		for _, i := range l.Invariants {
			if hasTag(i.Tags, p) {
				return true
			}
		}
	}
	return false
}

type namedOb struct {
	Name      string
	Func      string
	Kind      string
	Clause    string
	Instances int
	Failed    []*Obligation
	Backends  map[string]int
	Seconds   float64
}

func cmdCheck(args []string) int {
	fs := flag.NewFlagSet("check", flag.ExitOnError)
	prop := fs.String("p", "", "property id")
	tier := fs.String("tier", "", "quick|thorough")
	fs.Parse(args)
	if *prop == "" {
		usage()
	}
	if *tier == "" {
		*tier = os.Getenv("VERIF_TIER")
		if *tier == "" {
			*tier = "quick"
		}
	}
	seed := 0
	if s := os.Getenv("VERIF_SEED"); s != "" {
		seed, _ = strconv.Atoi(s)
	}
	t0 := time.Now()
	P := *prop
	vdir := verifDir()
	evPath := filepath.Join(vdir, "evidence", P+".json")
	os.MkdirAll(filepath.Dir(evPath), 0o755)
	os.Remove(evPath)
	scratch := scratchDir()
	defer os.RemoveAll(scratch)

	fail := func(msg string) int {
		// the machinery itself could not run: report as a violation of nothing, exit 2
		fmt.Fprintln(os.Stderr, "fvc:", msg)
		return 2
	}
	u, err := loadUniverse()
	if err != nil {
		// a tree that no longer loads cannot be verified: report as binding failure
		rp := writeReplay(vdir, P, "load#binding", map[string]interface{}{"obligation": "load#binding", "error": err.Error()})
		fmt.Printf("VIOLATION property=%s replay=%s no-failing-input-found\n", P, rp)
		writeEvidence(evPath, P, *tier, seed, nil, nil, []string{"load failed: " + err.Error()}, time.Since(t0).Seconds(), 1, u)
		return 1
	}
	_ = fail
	var obs []*Obligation
	var fcs []*FuncCtx
	var bindingFailures []string
	// contracts that mention P but bind to no function
	for name, c := range u.contracts {
		if c.Extern || !contractMentions(c, P) {
			continue
		}
		found := false
		for n, f := range u.funcs {
			if (n == name || genericName(n) == name) && len(f.Blocks) > 0 {
				found = true
			}
		}
		if !found {
			bindingFailures = append(bindingFailures, name)
		}
	}
	sort.Strings(bindingFailures)
	// C08/C09 are decided by frames: every frame obligation of every function under contract
	// counts, plus the package-wide sweeps
	framesProp := P == "C08" || P == "C09"
	// Every function under contract is generated. An obligation counts for P when its clause is
	// tagged with P, or when it belongs to a function in P's cone - the functions whose contracts
	// name P and everything they (transitively) call - and its clause names no property of its
	// own (safety, termination, frame and untagged clauses): a caller's proof of a P-clause uses
	// the callee's contract, so a callee that no longer meets its contract voids that proof.
	var roots []string
	for _, p := range u.contractedFunctions() {
		c := u.resolveLike(p.c)
		if contractMentions(c, P) || contractMentions(p.c, P) {
			roots = append(roots, u.displayName(p.fn))
		}
	}
	switch P {
	case "C01":
		roots = append(roots, "ParseSourceCode")
	case "C03":
		roots = append(roots, "(*Runner).Resolve", "fun*")
	}
	cone := u.reachableFromNames(roots...)
	if rc := u.funcs["(*Runner).resolveCallExpression"]; rc != nil && cone[rc] {
		// builtins are called reflectively through the table
		for f := range u.reachableFromNames("fun*") {
			cone[f] = true
		}
	}
	for _, p := range u.contractedFunctions() {
		c := u.resolveLike(p.c)
		fc := u.verifyFunction(p.fn, c)
		keep := false
		for _, ob := range fc.obs {
			if ob.Kind == "cover" {
				continue
			}
			if hasTag(ob.Tags, P) || (framesProp && ob.Kind == "frame") || (cone[p.fn] && !ob.OwnTags) {
				obs = append(obs, ob)
				keep = true
			}
		}
		if keep || len(fc.errs) > 0 && (cone[p.fn] || framesProp) {
			fcs = append(fcs, fc)
		}
	}
	var sweeps []sweepResult
	if framesProp {
		for _, sw := range u.runSweeps(u.inlined) {
			if P != "C08" && strings.HasPrefix(sw.Name, "package#sweep.map-order") {
				continue // determinism of the result under map iteration order is C08's clause
			}
			sweeps = append(sweeps, sw)
		}
	} else if P == "C10" || P == "C07" {
		for _, sw := range u.runSweeps(u.inlined) {
			if sw.Name == "package#sweep.data-reads" {
				sweeps = append(sweeps, sw)
			}
		}
	}
	// global facts are obligations discharged by ground evaluation
	var gfFailed []string
	gfCount := 0
	for _, g := range u.gfacts {
		if len(g.clause.Tags) > 0 && !hasTag(g.clause.Tags, P) {
			continue
		}
		gfCount++
		if !g.ok {
			gfFailed = append(gfFailed, g.clause.Text+": "+g.err)
		}
	}
	// obligations listed as known findings are expected to fail: a short limit is enough (if one
	// of them has been repaired it is proved well within it, like its neighbours)
	for _, k := range loadKnown().Known {
		for _, ob := range obs {
			if ob.Name == k.Obligation {
				ob.ShortLimit = true
			}
		}
	}
	s := newSolver(*tier)
	s.solveAll(obs)

	// thorough tier: vacuity guard, second-solver cross-check, must-fail corpus for this property
	thorough := map[string]interface{}{}
	var vacuous []string
	var disagreements []*Obligation
	if *tier == "thorough" {
		// (a) every function must have a reachable return under its contract
		var covers []*Obligation
		for _, fc := range fcs {
			for _, ob := range fc.obs {
				if ob.Kind == "cover" {
					covers = append(covers, ob)
				}
			}
		}
		cs := &Solver{dir: s.dir, quickS: 5, slowS: 10, workers: 16}
		cs.solveAll(covers)
		reach := map[string]string{}
		for _, ob := range covers {
			st := "unknown"
			if ob.Result != nil {
				st = ob.Result.Status
			}
			if st == "sat" || reach[ob.Func] == "" || (reach[ob.Func] == "unsat" && st != "unsat") {
				if reach[ob.Func] != "sat" {
					reach[ob.Func] = st
				}
			}
		}
		nReach := 0
		for _, fc := range fcs {
			switch reach[fc.name] {
			case "sat":
				nReach++
			case "unsat":
				vacuous = append(vacuous, fc.name)
			}
		}
		thorough["vacuity_guard"] = fmt.Sprintf("%d of %d functions have a return path whose assumptions are satisfiable (solver answered sat); %d contradictory; the rest undecided by the solver within 10 s", nReach, len(fcs), len(vacuous))
		// (b) cross-check with a second solver
		agree, undecided := 0, 0
		type xr struct {
			ob *Obligation
			st string
		}
		ch := make(chan *Obligation)
		res := make(chan xr)
		for w := 0; w < 16; w++ {
			go func() {
				for ob := range ch {
					second := "z3"
					if ob.Result.Backend == "z3" || ob.Result.Backend == "cvc5" || ob.Result.Backend == "cvc5-enum" {
						second = "z3-new"
					}
					text := ob.smt(false)
					f := filepath.Join(s.dir, "x-"+sanitize(ob.Name)+fmt.Sprintf("-%p.smt2", ob))
					os.WriteFile(f, []byte(text), 0o644)
					st, _, _ := runSolver(second, 10, f)
					os.Remove(f)
					res <- xr{ob, st}
				}
			}()
		}
		var todo []*Obligation
		for _, ob := range obs {
			if ob.Result != nil && ob.Result.Status == "unsat" && ob.Result.Backend != "syntactic" {
				todo = append(todo, ob)
			}
		}
		go func() {
			for _, ob := range todo {
				ch <- ob
			}
			close(ch)
		}()
		for range todo {
			r := <-res
			switch r.st {
			case "unsat":
				agree++
			case "sat":
				disagreements = append(disagreements, r.ob)
			default:
				undecided++
			}
		}
		thorough["cross_check"] = fmt.Sprintf("%d discharged obligation instances re-run on a second solver (10 s): %d agree, %d undecided there, %d disagree", len(todo), agree, undecided, len(disagreements))
		// (c) must-fail corpus: mutants and seeded changes of this property must be reported
		if os.Getenv("FVC_NO_SELFTEST") == "" && os.Getenv("FVC_REPO") == "" {
			cmd := exec.Command(filepath.Join(vdir, "selftest", "run.sh"), P)
			cmd.Env = append(os.Environ(), "FVC_NO_SELFTEST=1")
			out, _ := cmd.CombinedOutput()
			det := strings.Count(string(out), ": detected")
			miss := strings.Count(string(out), ": MISSED")
			thorough["must_fail_corpus"] = fmt.Sprintf("%d deliberate or seeded property-breaking changes for %s applied to scratch copies: %d reported, %d missed", det+miss, P, det, miss)
			if miss > 0 {
				thorough["must_fail_missed"] = string(out)
			}
		}
	}

	// group
	named := map[string]*namedOb{}
	var order []string
	for _, ob := range obs {
		n := named[ob.Name]
		if n == nil {
			n = &namedOb{Name: ob.Name, Func: ob.Func, Kind: ob.Kind, Clause: ob.Clause, Backends: map[string]int{}}
			named[ob.Name] = n
			order = append(order, ob.Name)
		}
		n.Instances++
		if ob.Result != nil {
			n.Seconds += ob.Result.Seconds
			if ob.Result.Status == "unsat" {
				n.Backends[ob.Result.Backend]++
				continue
			}
		}
		n.Failed = append(n.Failed, ob)
	}
	// engine errors are failures of the function's claim
	type violation struct {
		name   string
		detail map[string]interface{}
		model  bool
		obs    []*Obligation // failed instances (candidates for replay)
	}
	var viols []violation
	for _, fc := range fcs {
		for _, e := range fc.errs {
			if strings.HasPrefix(e, "note:") {
				continue
			}
			viols = append(viols, violation{name: fc.name + "#engine", detail: map[string]interface{}{
				"obligation": fc.name + "#engine", "function": fc.name,
				"reason":     "the verification-condition generator could not process this function (contract no longer binds, or construct outside the verified subset): " + e}})
		}
	}
	for _, e := range u.loadErrs {
		viols = append(viols, violation{name: "load#objinv", detail: map[string]interface{}{"obligation": "load#objinv", "reason": e}})
	}
	for _, b := range bindingFailures {
		viols = append(viols, violation{name: b + "#binding", detail: map[string]interface{}{
			"obligation": b + "#binding", "reason": "contract names a function that no longer exists with a body; the proof no longer applies"}})
	}
	for _, g := range gfFailed {
		viols = append(viols, violation{name: "globalfact", detail: map[string]interface{}{"obligation": "globalfact", "reason": g}})
	}
	for _, fn := range vacuous {
		viols = append(viols, violation{name: fn + "#vacuous", detail: map[string]interface{}{"obligation": fn + "#vacuous", "function": fn,
			"reason": "the assumptions on every return path of this function are contradictory: its obligations hold vacuously (a requires clause or invariant excludes everything)"}})
	}
	for _, ob := range disagreements {
		viols = append(viols, violation{name: ob.Name + "#solver-disagreement", detail: map[string]interface{}{"obligation": ob.Name, "function": ob.Func,
			"reason": "discharged by " + ob.Result.Backend + " but a second solver reports a counterexample", "smt2": ob.smt(true)}})
	}
	for _, sw := range sweeps {
		n := &namedOb{Name: sw.Name, Func: "package", Kind: "sweep", Clause: sw.Clause, Instances: 1, Backends: map[string]int{}}
		named[sw.Name] = n
		order = append(order, sw.Name)
		if len(sw.Bad) == 0 {
			n.Backends["ssa-sweep"]++
			continue
		}
		n.Failed = append(n.Failed, nil)
		viols = append(viols, violation{name: sw.Name, detail: map[string]interface{}{
			"obligation": sw.Name, "clause": sw.Clause, "kind": "sweep", "offenders": sw.Bad}})
	}
	for _, name := range order {
		n := named[name]
		if len(n.Failed) == 0 || n.Kind == "sweep" {
			continue
		}
		ob := n.Failed[0]
		d := map[string]interface{}{
			"obligation": name, "function": n.Func, "kind": n.Kind, "clause": n.Clause,
			"path": ob.Path, "failed_instances": len(n.Failed), "instances": n.Instances,
			"status": ob.Result.Status, "solver_outputs": ob.Result.Outputs, "smt2": ob.smt(true),
		}
		if ob.Result.Model != "" {
			d["model"] = trimOut(ob.Result.Model)
			d["model_from_relaxed_query"] = ob.Result.Relaxed
		}
		viols = append(viols, violation{name: name, detail: d, model: ob.Result.Model != "", obs: n.Failed})
	}
	// known findings
	kf := loadKnown()
	rc := 0
	nviol := 0
	for _, v := range viols {
		known := false
		for _, k := range kf.Known {
			if k.Obligation == v.name {
				fmt.Printf("KNOWN-FINDING: property=%s %s: %s\n", P, k.Obligation, k.What)
				known = true
			}
		}
		if known {
			continue
		}
		nviol++
		rc = 1
		// replay on the real code where a model exists
		suffix := ""
		replayed := false
		for i, fo := range v.obs {
			if i >= 3 || replayed {
				break
			}
			replayed = tryReplayOb(u, fo, v.detail, filepath.Join(scratch, fmt.Sprintf("replay%d", i)))
		}
		if !replayed {
			suffix = " no-failing-input-found"
		}
		rp := writeReplay(vdir, P, v.name, v.detail)
		fmt.Printf("VIOLATION property=%s replay=%s%s\n", P, rp, suffix)
		fmt.Printf("  obligation %s\n  %v\n", v.name, v.detail["clause"])
	}
	secs := time.Since(t0).Seconds()
	var notes []string
	for _, fc := range fcs {
		for _, e := range fc.errs {
			if strings.HasPrefix(e, "note: ") {
				notes = append(notes, strings.TrimPrefix(e, "note: "))
			}
		}
	}
	evidenceExtra = thorough
	writeEvidenceFull(evPath, P, *tier, seed, named, order, fcs, notes, secs, nviol, u, gfCount, len(gfFailed))
	nOK := 0
	for _, name := range order {
		if len(named[name].Failed) == 0 {
			nOK++
		}
	}
	fmt.Printf("property %s tier %s: functions=%d obligations=%d (instances=%d) discharged=%d violations=%d wall=%.1fs\n", P, *tier, len(fcs), len(order)+gfCount, len(obs), nOK+gfCount-len(gfFailed), nviol, secs)
	if len(order)+gfCount == 0 {
		fmt.Printf("VIOLATION property=%s replay=%s no-failing-input-found\n", P, writeReplay(vdir, P, "vacuous", map[string]interface{}{"obligation": "vacuous", "reason": "no obligation is tagged with this property"}))
		return 1
	}
	return rc
}

func writeReplay(vdir, P, name string, detail map[string]interface{}) string {
	dir := filepath.Join(vdir, "replays", P)
	os.MkdirAll(dir, 0o755)
	path := filepath.Join(dir, sanitize(name)+".json")
	data, _ := json.MarshalIndent(detail, "", " ")
	os.WriteFile(path, data, 0o644)
	return path
}

func writeEvidence(path, P, tier string, seed int, named map[string]*namedOb, order []string, notes []string, secs float64, nviol int, u *Universe) {
	writeEvidenceFull(path, P, tier, seed, named, order, nil, notes, secs, nviol, u, 0, 0)
}

var evidenceExtra map[string]interface{}

func writeEvidenceFull(path, P, tier string, seed int, named map[string]*namedOb, order []string, fcs []*FuncCtx, notes []string, secs float64, nviol int, u *Universe, gfCount, gfFailed int) {
	discharged := gfCount - gfFailed
	backends := map[string]int{}
	solverSecs := 0.0
	samples := []interface{}{}
	instances := 0
	// obligations listed as known findings that fail are reported, not claimed
	knownFailed := []interface{}{}
	for _, name := range order {
		n := named[name]
		instances += n.Instances
		solverSecs += n.Seconds
		if len(n.Failed) == 0 {
			discharged++
		} else {
			for _, k := range loadKnown().Known {
				if k.Obligation == name {
					knownFailed = append(knownFailed, map[string]interface{}{"obligation": name, "clause": n.Clause, "what_fails": k.What, "input": k.Input})
				}
			}
		}
		for b, k := range n.Backends {
			backends[b] += k
		}
		if len(samples) < 12 {
			samples = append(samples, map[string]interface{}{"obligation": name, "clause": n.Clause, "path_instances": n.Instances, "failed_instances": len(n.Failed)})
		}
	}
	if gfCount > 0 {
		backends["ground-evaluation"] = gfCount - gfFailed
	}
	funcs := []string{}
	for _, fc := range fcs {
		funcs = append(funcs, fc.name)
	}
	assumptions := []string{
		"x/tools go/ssa translation of /repo's working tree (build tag verif) agrees with the Go compiler",
		"fvc's symbolic semantics of the SSA subset; Go int arithmetic treated as mathematical integers (no overflow obligations generated)",
		"SMT solvers z3 4.8.12 / z3 5.1.0 / cvc5 1.0.x are sound",
		"nil slices and empty slices are identified; slices are value sequences (no stores through slice elements in /repo, checked by the generator)",
		"the entry heap is closed under reachability: a reference stored in an object that exists at function entry was allocated before entry",
		"float64 values and their operations, integer bit operations and shifts by a variable are uninterpreted symbols (the same symbols in code and specification)",
		"bytes of strings and []byte are not constrained to 0..255 inside verification conditions (only replayed inputs are)",
		"termination is proved per loop (variant) and per recursion cycle (lexicographic measure); map range loops are assumed to terminate; stack depth and memory are outside the logic",
	}
	if u != nil {
		assumptions = append(assumptions, u.assumes...)
	}
	sort.Strings(notes)
	notes = uniq(notes)
	assumptions = append(assumptions, notes...)
	ev := map[string]interface{}{
		"property_id": P,
		"tier":        tier,
		"seed":        seed,
		"level":       "proof",
		"coverage": map[string]interface{}{
			"obligations":        len(order) + gfCount - len(knownFailed),
			"discharged":         discharged,
			"known_findings":     knownFailed,
			"obligation_instances_per_path": instances,
			"checker_cmd":        "fvc check -p " + P + " -tier " + tier + " (weakest-precondition VCs over go/ssa of /repo; z3-new, then cvc5 and z3 raced)",
			"trusted_base":       []string{"golang.org/x/tools/go/ssa v0.29.0", "fvc VC generator (/verif/fvc)", "z3 5.1.0", "cvc5 1.0", "z3 4.8.12"},
			"functions_under_contract": funcs,
			"discharged_by_backend":    backends,
			"solver_seconds":           solverSecs,
			"samples":                  samples,
			"thorough_extras":          evidenceExtra,
		},
		"assumptions": assumptions,
		"wall_s":      secs,
		"violations":  nviol,
	}
	data, _ := json.MarshalIndent(ev, "", " ")
	os.WriteFile(path, data, 0o644)
}

func uniq(s []string) []string {
	var out []string
	for i, x := range s {
		if i == 0 || x != s[i-1] {
			out = append(out, x)
		}
	}
	return out
}


var _ = ssa.NaiveForm
