package main

// Contract / spec language: lexer, AST and parser.
//
// The same syntax is used in /repo/contracts_verif.go (every line prefixed with
// "//@") and in /verif/spec/*.fvs (no prefix).

import (
	"fmt"
	"os"
	"strings"
)

// ---------- AST ----------

type Expr interface{ exprPos() Pos }

type Pos struct {
	File string
	Line int
}

func (p Pos) String() string { return fmt.Sprintf("%s:%d", p.File, p.Line) }

type (
	EIdent struct {
		P    Pos
		Name string
	}
	EInt struct {
		P Pos
		V string
	}
	EStr struct {
		P Pos
		V string
	}
	EBool struct {
		P Pos
		V bool
	}
	ENil   struct{ P Pos }
	EUnary struct {
		P  Pos
		Op string
		X  Expr
	}
	EBinary struct {
		P    Pos
		Op   string
		X, Y Expr
	}
	ECond struct {
		P       Pos
		C, A, B Expr
	}
	ECall struct {
		P    Pos
		Fun  string
		Args []Expr
		// TypeArg is set for is(x, T) / as(x, T) / funcid(F) style builtins whose
		// last argument is raw text.
		Raw string
	}
	EField struct {
		P    Pos
		X    Expr
		Name string
	}
	EIndex struct {
		P    Pos
		X, I Expr
	}
	ESlice struct {
		P         Pos
		X, Lo, Hi Expr
	}
	EQuant struct {
		P      Pos
		Forall bool
		Vars   []Param
		Body   Expr
	}
	EOld struct {
		P Pos
		X Expr
	}
	ELet struct {
		P    Pos
		Name string
		V    Expr
		Body Expr
	}
)

func (e *EIdent) exprPos() Pos  { return e.P }
func (e *EInt) exprPos() Pos    { return e.P }
func (e *EStr) exprPos() Pos    { return e.P }
func (e *EBool) exprPos() Pos   { return e.P }
func (e *ENil) exprPos() Pos    { return e.P }
func (e *EUnary) exprPos() Pos  { return e.P }
func (e *EBinary) exprPos() Pos { return e.P }
func (e *ECond) exprPos() Pos   { return e.P }
func (e *ECall) exprPos() Pos   { return e.P }
func (e *EField) exprPos() Pos  { return e.P }
func (e *EIndex) exprPos() Pos  { return e.P }
func (e *ESlice) exprPos() Pos  { return e.P }
func (e *EQuant) exprPos() Pos  { return e.P }
func (e *EOld) exprPos() Pos    { return e.P }
func (e *ELet) exprPos() Pos    { return e.P }

type Param struct {
	Name string
	Type string // raw type text
}

type Clause struct {
	P    Pos
	Tags []string // property ids
	E    Expr
	Text string
}

type Desig struct { // assigns designator
	P    Pos
	E    Expr // EField (x.f), EIndex (m[k]) or ECall all(m) / region(name)
	Text string
}

type LoopSpec struct {
	Ordinal    int
	Invariants []*Clause
	Decreases  []Expr
	Cut        bool
	Once       bool // only the first path that reaches the header continues (from a state that keeps nothing but the invariant)
}

// CutSpec: an intermediate assertion placed just before the n-th static call of Callee in
// the function body. Every path reaching it proves the invariants; one path continues from a
// havocked state that satisfies them (like a loop header that is visited once).
type CutSpec struct {
	Ordinal    int
	Callee     string
	Nth        int
	Invariants []*Clause
}

type Contract struct {
	Cuts      []*CutSpec
	P         Pos
	FuncName  string
	Extern    bool
	Requires  []*Clause
	Ensures   []*Clause
	Defines   []*Clause // naming postconditions: assumed by callers, not checked in the body
	Assigns   []*Desig
	AssignAll bool
	HasAssign bool
	NoPanic   bool
	PanicTags []string
	Decreases []Expr
	Loops     map[int]*LoopSpec
	Dispatch  map[string][]string
	Like      string
	Inline    bool
	Trusted   bool
	Results   []string // optional names for results (extern)
	Params    []string // optional names for params (extern)
	Allocates bool     // may allocate (default true for in-package)
	NoAlloc   bool
	Asserts   []*CallAssert
	Tags      []string
}

// CallAssert: "at call <callee>[#k]: assert[...] expr" evaluated just before the call
// with the callee's formals bound to the actuals ($1, $2 ... or parameter names).
type CallAssert struct {
	Callee string
	Clause *Clause
}

type SpecFunc struct {
	P      Pos
	Name   string
	Params []Param
	Ret    string
	Body   Expr
	Rec    bool
	Fuel   int
}

type GhostField struct {
	P     Pos
	Owner string // Go type text, e.g. bytes.Buffer
	Name  string
	Type  string
}

type Lemma struct {
	P    Pos
	Name string
	Tags []string
	E    Expr
	Text string
}

type AssignSet struct {
	P      Pos
	Name   string
	Params []Param
	Desigs []*Desig
}

// ObjInv: an invariant of every object of a struct type, established where its fields are
// written (obligation at return of each writing function) and assumed wherever a
// reference to such an object is read.
type ObjInv struct {
	P     Pos
	Type  string
	Param string
	Tags  []string
	E     Expr
	Text  string
}

// InitInv: a fact about package-level state that one init function establishes (it is added
// to that function's postconditions) and that every other function may assume, because a
// sweep shows that nothing else writes the variables it mentions.
type InitInv struct {
	P      Pos
	Name   string
	By     string
	Clause *Clause
}

type SpecFile struct {
	InitInvs   []*InitInv
	Axioms     []*Clause
	OnlyWrites map[string][]string
	ObjInvs   []*ObjInv
	ASets     []*AssignSet
	Funcs     []*SpecFunc
	Ghosts    []*GhostField
	Contracts []*Contract
	Lemmas    []*Lemma
	BVTypes   []string
	GFacts    []*Clause
	Assumes   []string // textual list of every assumption keyword seen (extern/trusted)
}

// ---------- Lexer ----------

type tok struct {
	kind string // id int str char op eof
	text string
	line int
	bol  bool // first token on its line
}

type lexer struct {
	file string
	toks []tok
	i    int
}

var ops3 = []string{"<==>", "==>", "::", ":=", "++", "==", "!=", "<=", ">=", "&&", "||", "<<", ">>", "&^"}

func lexText(file string, lines []string, lineNos []int) (*lexer, error) {
	lx := &lexer{file: file}
	for li, line := range lines {
		ln := lineNos[li]
		bol := true
		i := 0
		for i < len(line) {
			c := line[i]
			if c == ' ' || c == '\t' || c == '\r' {
				i++
				continue
			}
			if c == '/' && i+1 < len(line) && line[i+1] == '/' {
				break
			}
			start := i
			switch {
			case c == '_' || c == '$' || (c >= 'a' && c <= 'z') || (c >= 'A' && c <= 'Z'):
				for i < len(line) && (line[i] == '_' || line[i] == '$' || line[i] == '@' || (line[i] >= 'a' && line[i] <= 'z') || (line[i] >= 'A' && line[i] <= 'Z') || (line[i] >= '0' && line[i] <= '9')) {
					i++
				}
				lx.toks = append(lx.toks, tok{"id", line[start:i], ln, bol})
			case c >= '0' && c <= '9':
				if c == '0' && i+1 < len(line) && (line[i+1] == 'x' || line[i+1] == 'X') {
					i += 2
					for i < len(line) && strings.ContainsRune("0123456789abcdefABCDEF", rune(line[i])) {
						i++
					}
				} else {
					for i < len(line) && line[i] >= '0' && line[i] <= '9' {
						i++
					}
				}
				lx.toks = append(lx.toks, tok{"int", line[start:i], ln, bol})
			case c == '"':
				i++
				var sb strings.Builder
				for i < len(line) && line[i] != '"' {
					if line[i] == '\\' && i+1 < len(line) {
						i++
						switch line[i] {
						case 'n':
							sb.WriteByte('\n')
						case 't':
							sb.WriteByte('\t')
						case 'r':
							sb.WriteByte('\r')
						case '0':
							sb.WriteByte(0)
						default:
							sb.WriteByte(line[i])
						}
						i++
						continue
					}
					sb.WriteByte(line[i])
					i++
				}
				i++
				lx.toks = append(lx.toks, tok{"str", sb.String(), ln, bol})
			case c == '\'':
				// char literal
				i++
				var v int
				if line[i] == '\\' {
					i++
					switch line[i] {
					case 'n':
						v = '\n'
					case 't':
						v = '\t'
					case 'r':
						v = '\r'
					case 'v':
						v = '\v'
					case 'f':
						v = '\f'
					case 'b':
						v = '\b'
					case '0':
						v = 0
					default:
						v = int(line[i])
					}
					i++
				} else {
					// possibly multibyte
					r := []rune(line[i:])[0]
					v = int(r)
					i += len(string(r))
				}
				if i >= len(line) || line[i] != '\'' {
					return nil, fmt.Errorf("%s:%d: bad char literal", file, ln)
				}
				i++
				lx.toks = append(lx.toks, tok{"int", fmt.Sprint(v), ln, bol})
			default:
				matched := false
				for _, op := range ops3 {
					if strings.HasPrefix(line[i:], op) {
						lx.toks = append(lx.toks, tok{"op", op, ln, bol})
						i += len(op)
						matched = true
						break
					}
				}
				if !matched {
					lx.toks = append(lx.toks, tok{"op", string(c), ln, bol})
					i++
				}
			}
			bol = false
		}
	}
	lx.toks = append(lx.toks, tok{"eof", "", 0, true})
	return lx, nil
}

func (lx *lexer) peek() tok { return lx.toks[lx.i] }
func (lx *lexer) peekN(n int) tok {
	if lx.i+n < len(lx.toks) {
		return lx.toks[lx.i+n]
	}
	return lx.toks[len(lx.toks)-1]
}
func (lx *lexer) next() tok { t := lx.toks[lx.i]; lx.i++; return t }
func (lx *lexer) pos() Pos  { return Pos{lx.file, lx.peek().line} }
func (lx *lexer) isOp(s string) bool {
	t := lx.peek()
	return t.kind == "op" && t.text == s
}
func (lx *lexer) isId(s string) bool {
	t := lx.peek()
	return t.kind == "id" && t.text == s
}
func (lx *lexer) accept(s string) bool {
	if lx.isOp(s) {
		lx.i++
		return true
	}
	return false
}
func (lx *lexer) expect(s string) {
	if !lx.accept(s) {
		lx.fail("expected %q, got %q", s, lx.peek().text)
	}
}
func (lx *lexer) fail(f string, a ...interface{}) {
	panic(fmt.Errorf("%s:%d: %s", lx.file, lx.peek().line, fmt.Sprintf(f, a...)))
}

var clauseKeywords = map[string]bool{
	"requires": true, "ensures": true, "defines": true, "axiom": true, "assigns": true, "panics": true, "decreases": true,
	"loop": true, "dispatch": true, "like": true, "inline": true, "trusted": true,
	"func": true, "extern": true, "spec": true, "ghost": true, "lemma": true, "bvtype": true,
	"invariant": true, "cut": true, "globalfact": true, "initinv": true, "frame": true, "objinv": true, "onlywrites": true, "noalloc": true, "at": true, "tags": true,
}

// startsItem reports whether the current token begins a new clause/item (keyword at
// beginning of line).
func (lx *lexer) startsItem() bool {
	t := lx.peek()
	if t.kind == "eof" {
		return true
	}
	return t.bol && t.kind == "id" && clauseKeywords[t.text]
}

// restOfLine collects raw token text up to the end of the current line.
func (lx *lexer) restOfLine() string {
	var parts []string
	ln := lx.peek().line
	first := true
	for lx.peek().kind != "eof" && lx.peek().line == ln && (first || !lx.peek().bol) {
		parts = append(parts, lx.next().text)
		first = false
	}
	return strings.Join(parts, "")
}

// ---------- Parser ----------

func (lx *lexer) parseTags() []string {
	var tags []string
	if lx.isOp("[") {
		lx.next()
		for !lx.isOp("]") {
			t := lx.next()
			if t.kind == "id" {
				tags = append(tags, t.text)
			}
		}
		lx.next()
	}
	return tags
}

func (lx *lexer) exprText(from, to int) string {
	var parts []string
	for i := from; i < to; i++ {
		parts = append(parts, lx.toks[i].text)
	}
	return strings.Join(parts, " ")
}

func (lx *lexer) parseClause() *Clause {
	p := lx.pos()
	tags := lx.parseTags()
	from := lx.i
	e := lx.parseExpr()
	return &Clause{P: p, Tags: tags, E: e, Text: lx.exprText(from, lx.i)}
}

func parseSpecFile(file string, lines []string, lineNos []int) (sf *SpecFile, err error) {
	defer func() {
		if r := recover(); r != nil {
			if e, ok := r.(error); ok {
				err = e
				return
			}
			panic(r)
		}
	}()
	lx, err := lexText(file, lines, lineNos)
	if err != nil {
		return nil, err
	}
	sf = &SpecFile{}
	for lx.peek().kind != "eof" {
		t := lx.peek()
		if t.kind != "id" {
			lx.fail("unexpected token %q at top level", t.text)
		}
		switch t.text {
		case "bvtype":
			lx.next()
			sf.BVTypes = append(sf.BVTypes, lx.next().text)
		case "globalfact":
			lx.next()
			sf.GFacts = append(sf.GFacts, lx.parseClause())
		case "initinv":
			lx.next()
			ii := &InitInv{P: lx.pos()}
			ii.Name = lx.next().text
			if !lx.isId("by") {
				lx.fail("initinv <name> by <init function>: <expr>")
			}
			lx.next()
			var parts []string
			for !lx.isOp(":") {
				parts = append(parts, lx.next().text)
			}
			ii.By = strings.Join(parts, "")
			lx.expect(":")
			ii.Clause = lx.parseClause()
			sf.InitInvs = append(sf.InitInvs, ii)
		case "axiom":
			lx.next()
			sf.Axioms = append(sf.Axioms, lx.parseClause())
		case "onlywrites":
			lx.next()
			raw := lx.restOfLine()
			i := strings.Index(raw, ":")
			if i < 0 {
				lx.fail("onlywrites Type.field: F1, F2")
			}
			if sf.OnlyWrites == nil {
				sf.OnlyWrites = map[string][]string{}
			}
			var fl []string
			if strings.TrimSpace(raw[i+1:]) != "" {
				fl = strings.Split(raw[i+1:], ",")
			}
			sf.OnlyWrites[raw[:i]] = fl
		case "objinv":
			lx.next()
			oi := &ObjInv{P: lx.pos()}
			oi.Tags = lx.parseTags()
			oi.Type = lx.next().text
			lx.expect("(")
			oi.Param = lx.next().text
			lx.expect(")")
			lx.expect(":=")
			from := lx.i
			oi.E = lx.parseExpr()
			oi.Text = lx.exprText(from, lx.i)
			sf.ObjInvs = append(sf.ObjInvs, oi)
		case "frame":
			lx.next()
			as := &AssignSet{P: lx.pos()}
			as.Name = lx.next().text
			as.Params = lx.parseParams()
			lx.expect(":=")
			for {
				p := lx.pos()
				from := lx.i
				e := lx.parseUnary()
				as.Desigs = append(as.Desigs, &Desig{P: p, E: e, Text: lx.exprText(from, lx.i)})
				if !lx.accept(",") {
					break
				}
			}
			sf.ASets = append(sf.ASets, as)
		case "spec":
			sf.Funcs = append(sf.Funcs, lx.parseSpecFunc())
		case "ghost":
			lx.next()
			if lx.isId("global") {
				// ghost global <name> : <type>  - a ghost package-level variable
				lx.next()
				p := lx.pos()
				raw := lx.restOfLine()
				ci := strings.LastIndex(raw, ":")
				if ci < 0 {
					lx.fail("ghost global syntax: ghost global name : type")
				}
				sf.Ghosts = append(sf.Ghosts, &GhostField{P: p, Owner: "", Name: raw[:ci], Type: raw[ci+1:]})
				break
			}
			if !lx.isId("field") {
				lx.fail("expected 'field' or 'global'")
			}
			lx.next()
			p := lx.pos()
			raw := lx.restOfLine()
			// Owner.name Type  (raw has no spaces; split on last '.' before type... use ':' separator)
			// syntax: ghost field <owner> . <name> : <type>
			ci := strings.LastIndex(raw, ":")
			if ci < 0 {
				lx.fail("ghost field syntax: ghost field Owner.name : type")
			}
			on := raw[:ci]
			di := strings.LastIndex(on, ".")
			sf.Ghosts = append(sf.Ghosts, &GhostField{P: p, Owner: on[:di], Name: on[di+1:], Type: raw[ci+1:]})
		case "lemma":
			lx.next()
			p := lx.pos()
			name := lx.next().text
			tags := lx.parseTags()
			lx.expect(":")
			from := lx.i
			e := lx.parseExpr()
			sf.Lemmas = append(sf.Lemmas, &Lemma{P: p, Name: name, Tags: tags, E: e, Text: lx.exprText(from, lx.i)})
		case "func", "extern":
			sf.Contracts = append(sf.Contracts, lx.parseContract())
		default:
			lx.fail("unexpected %q at top level", t.text)
		}
	}
	return sf, nil
}

func (lx *lexer) parseTypeText(stops ...string) string {
	// collect tokens until one of stops at depth 0
	depth := 0
	var parts []string
	for {
		t := lx.peek()
		if t.kind == "eof" {
			break
		}
		if t.bol && t.kind == "id" && clauseKeywords[t.text] && len(parts) > 0 {
			break
		}
		if t.kind == "op" {
			if depth == 0 {
				stop := false
				for _, s := range stops {
					if t.text == s {
						stop = true
					}
				}
				if stop {
					break
				}
			}
			if t.text == "(" || t.text == "[" || t.text == "{" {
				depth++
			}
			if t.text == ")" || t.text == "]" || t.text == "}" {
				depth--
			}
		}
		if t.kind == "id" && len(parts) > 0 && isWordEnd(parts[len(parts)-1]) {
			parts = append(parts, " ")
		}
		parts = append(parts, lx.next().text)
	}
	return strings.Join(parts, "")
}

func isWordEnd(s string) bool {
	if s == "" {
		return false
	}
	c := s[len(s)-1]
	return c == '_' || (c >= 'a' && c <= 'z') || (c >= 'A' && c <= 'Z') || (c >= '0' && c <= '9')
}

func (lx *lexer) parseParams() []Param {
	var ps []Param
	lx.expect("(")
	for !lx.isOp(")") {
		name := lx.next().text
		typ := lx.parseTypeText(",", ")")
		ps = append(ps, Param{name, typ})
		if !lx.accept(",") {
			break
		}
	}
	lx.expect(")")
	return ps
}

func (lx *lexer) parseSpecFunc() *SpecFunc {
	lx.next() // spec
	f := &SpecFunc{P: lx.pos(), Fuel: 1}
	if lx.isId("rec") {
		lx.next()
		f.Rec = true
	} else if lx.isId("rec2") || lx.isId("rec3") || lx.isId("rec4") {
		// recursive with a larger unfolding depth at each use
		t := lx.next().text
		f.Rec = true
		f.Fuel = int(t[3] - '0')
	}
	f.Name = lx.next().text
	f.Params = lx.parseParams()
	f.Ret = lx.parseTypeText(":=")
	// Ret may have swallowed following item when there is no body; handle: stop at bol keyword
	if lx.accept(":=") {
		f.Body = lx.parseExpr()
	}
	return f
}

func (lx *lexer) parseContract() *Contract {
	kw := lx.next().text
	c := &Contract{P: lx.pos(), Extern: kw == "extern", Loops: map[int]*LoopSpec{}, Dispatch: map[string][]string{}}
	if c.Extern && lx.isId("func") {
		lx.next()
	}
	// function name: rest of line, possibly with "(params) (results)" for externs
	raw := lx.restOfLine()
	c.FuncName = raw
	if i := strings.Index(raw, "::"); i >= 0 {
		// name :: p1,p2 -> r1,r2
		c.FuncName = raw[:i]
		sig := raw[i+2:]
		var ps, rs string
		if j := strings.Index(sig, "->"); j >= 0 {
			ps, rs = sig[:j], sig[j+2:]
		} else {
			ps = sig
		}
		if ps != "" {
			c.Params = strings.Split(ps, ",")
		}
		if rs != "" {
			c.Results = strings.Split(rs, ",")
		}
	}
	for {
		t := lx.peek()
		if t.kind == "eof" || !(t.kind == "id" && clauseKeywords[t.text]) {
			if t.kind == "eof" {
				break
			}
			lx.fail("unexpected token %q in contract of %s", t.text, c.FuncName)
		}
		switch t.text {
		case "func", "extern", "spec", "ghost", "lemma", "bvtype", "globalfact", "frame", "objinv", "onlywrites", "axiom":
			return c
		case "requires":
			lx.next()
			c.Requires = append(c.Requires, lx.parseClause())
		case "ensures":
			lx.next()
			c.Ensures = append(c.Ensures, lx.parseClause())
		case "defines":
			lx.next()
			c.Defines = append(c.Defines, lx.parseClause())
		case "tags":
			lx.next()
			c.Tags = append(c.Tags, lx.parseTags()...)
		case "assigns":
			lx.next()
			c.HasAssign = true
			if lx.isOp("*") {
				lx.next()
				c.AssignAll = true
				break
			}
			if lx.isId("nothing") {
				lx.next()
				break
			}
			for {
				p := lx.pos()
				from := lx.i
				e := lx.parseUnary()
				c.Assigns = append(c.Assigns, &Desig{P: p, E: e, Text: lx.exprText(from, lx.i)})
				if !lx.accept(",") {
					break
				}
			}
		case "panics":
			lx.next()
			w := lx.next().text
			if w != "never" {
				lx.fail("only 'panics never' is supported")
			}
			c.NoPanic = true
			c.PanicTags = lx.parseTags()
		case "noalloc":
			lx.next()
			c.NoAlloc = true
		case "decreases":
			lx.next()
			for {
				c.Decreases = append(c.Decreases, lx.parseExpr())
				if !lx.accept(",") {
					break
				}
			}
		case "loop":
			lx.next()
			nt := lx.next()
			var n int
			fmt.Sscan(nt.text, &n)
			lx.expect(":")
			ls := c.Loops[n]
			if ls == nil {
				ls = &LoopSpec{Ordinal: n}
				c.Loops[n] = ls
			}
			for {
				if lx.isId("once") {
					lx.next()
					ls.Once = true
				} else if lx.isId("invariant") {
					lx.next()
					ls.Invariants = append(ls.Invariants, lx.parseClause())
				} else if lx.isId("decreases") && !lx.peek().bol {
					lx.next()
					ls.Decreases = append(ls.Decreases, lx.parseExpr())
				} else if lx.isId("decreases") && lx.peek().bol && lx.peekIndentedLoopClause() {
					lx.next()
					ls.Decreases = append(ls.Decreases, lx.parseExpr())
				} else {
					break
				}
			}
		case "cut":
			lx.next()
			nt := lx.next()
			cs := &CutSpec{Nth: 1}
			fmt.Sscan(nt.text, &cs.Ordinal)
			lx.expect(":")
			if !lx.isId("before") {
				lx.fail("expected 'before <callee>' after 'cut N:'")
			}
			lx.next()
			raw := lx.restOfLine()
			if i := strings.Index(raw, "#"); i >= 0 {
				fmt.Sscan(raw[i+1:], &cs.Nth)
				raw = raw[:i]
			}
			cs.Callee = raw
			for lx.isId("invariant") {
				lx.next()
				cs.Invariants = append(cs.Invariants, lx.parseClause())
			}
			c.Cuts = append(c.Cuts, cs)
		case "invariant":
			lx.fail("invariant outside loop clause")
		case "dispatch":
			lx.next()
			name := lx.next().text
			lx.expect(":")
			raw := lx.restOfLine()
			c.Dispatch[name] = strings.Split(raw, ",")
		case "like":
			lx.next()
			c.Like = lx.restOfLine()
		case "inline":
			lx.next()
			c.Inline = true
		case "trusted":
			lx.next()
			c.Trusted = true
		case "at":
			lx.next()
			if !lx.isId("call") {
				lx.fail("expected 'call' after 'at'")
			}
			lx.next()
			// callee name up to ':'
			var parts []string
			for !lx.isOp(":") {
				parts = append(parts, lx.next().text)
			}
			lx.expect(":")
			if !lx.isId("assert") {
				lx.fail("expected 'assert'")
			}
			lx.next()
			cl := lx.parseClause()
			c.Asserts = append(c.Asserts, &CallAssert{Callee: strings.Join(parts, ""), Clause: cl})
		default:
			lx.fail("unexpected clause keyword %q", t.text)
		}
	}
	return c
}

// Inside a "loop N:" group, a line starting with "decreases" belongs to the loop when
// the loop has not yet got a decreases clause (function-level measures are written
// before the first loop clause).
func (lx *lexer) peekIndentedLoopClause() bool { return true }

// Expression parsing (precedence climbing)

func (lx *lexer) parseExpr() Expr {
	if lx.isId("forall") || lx.isId("exists") {
		return lx.parseQuant()
	}
	if lx.isId("let") {
		p := lx.pos()
		lx.next()
		name := lx.next().text
		lx.expect(":=")
		v := lx.parseExpr()
		if !lx.isId("in") {
			lx.fail("expected 'in'")
		}
		lx.next()
		body := lx.parseExpr()
		return &ELet{p, name, v, body}
	}
	return lx.parseIff()
}

func (lx *lexer) parseQuant() Expr {
	p := lx.pos()
	fa := lx.next().text == "forall"
	var vars []Param
	for {
		name := lx.next().text
		typ := lx.parseTypeText(",", "::")
		vars = append(vars, Param{name, typ})
		if !lx.accept(",") {
			break
		}
	}
	lx.expect("::")
	body := lx.parseExpr()
	return &EQuant{p, fa, vars, body}
}

func (lx *lexer) parseIff() Expr {
	x := lx.parseImp()
	for lx.isOp("<==>") {
		p := lx.pos()
		lx.next()
		y := lx.parseImp()
		x = &EBinary{p, "<==>", x, y}
	}
	return x
}

func (lx *lexer) parseImp() Expr {
	x := lx.parseCond()
	if lx.isOp("==>") {
		p := lx.pos()
		lx.next()
		var y Expr
		if lx.isId("forall") || lx.isId("exists") || lx.isId("let") {
			y = lx.parseExpr()
		} else {
			y = lx.parseImp()
		}
		return &EBinary{p, "==>", x, y}
	}
	return x
}

func (lx *lexer) parseCond() Expr {
	c := lx.parseBin(1)
	if lx.isOp("?") {
		p := lx.pos()
		lx.next()
		a := lx.parseCond()
		lx.expect(":")
		b := lx.parseCond()
		return &ECond{p, c, a, b}
	}
	return c
}

var binPrec = map[string]int{
	"||": 1, "&&": 2,
	"==": 3, "!=": 3, "<": 3, "<=": 3, ">": 3, ">=": 3,
	"+": 4, "-": 4, "|": 4, "^": 4, "++": 4,
	"*": 5, "/": 5, "%": 5, "&": 5, "<<": 5, ">>": 5, "&^": 5,
}

func (lx *lexer) parseBin(min int) Expr {
	x := lx.parseUnary()
	for {
		t := lx.peek()
		if t.kind != "op" {
			return x
		}
		pr, ok := binPrec[t.text]
		if !ok || pr < min {
			return x
		}
		p := lx.pos()
		lx.next()
		y := lx.parseBin(pr + 1)
		x = &EBinary{p, t.text, x, y}
	}
}

func (lx *lexer) parseUnary() Expr {
	p := lx.pos()
	if lx.accept("!") {
		return &EUnary{p, "!", lx.parseUnary()}
	}
	if lx.accept("-") {
		return &EUnary{p, "-", lx.parseUnary()}
	}
	if lx.accept("^") {
		return &EUnary{p, "^", lx.parseUnary()}
	}
	return lx.parsePostfix(lx.parsePrimary())
}

var rawArgBuiltins = map[string]int{"is": 1, "as": 1, "funcid": 0, "typeid": 0, "zero": 0, "box": 1, "unbox": 1, "mk": 0, "ptr": 1, "empty": 0, "implements": 1}

func (lx *lexer) parsePrimary() Expr {
	p := lx.pos()
	t := lx.next()
	switch t.kind {
	case "int":
		return &EInt{p, t.text}
	case "str":
		return &EStr{p, t.text}
	case "id":
		switch t.text {
		case "true":
			return &EBool{p, true}
		case "false":
			return &EBool{p, false}
		case "nil":
			return &ENil{p}
		case "old":
			if lx.isOp("(") {
				lx.next()
				e := lx.parseExpr()
				lx.expect(")")
				return &EOld{p, e}
			}
		case "forall", "exists":
			lx.i--
			return lx.parseQuant()
		}
		if lx.isOp("(") {
			lx.next()
			call := &ECall{P: p, Fun: t.text}
			nExpr, raw := rawArgBuiltins[t.text]
			k := 0
			for !lx.isOp(")") {
				if raw && k == nExpr {
					call.Raw = lx.parseTypeText(")")
					break
				}
				call.Args = append(call.Args, lx.parseExpr())
				k++
				if !lx.accept(",") {
					break
				}
			}
			lx.expect(")")
			return call
		}
		return &EIdent{p, t.text}
	case "op":
		if t.text == "(" {
			e := lx.parseExpr()
			lx.expect(")")
			return e
		}
	}
	lx.i--
	lx.fail("unexpected token %q in expression", t.text)
	return nil
}

func (lx *lexer) parsePostfix(x Expr) Expr {
	for {
		p := lx.pos()
		switch {
		case lx.isOp(".") && lx.peekN(1).kind == "id":
			lx.next()
			name := lx.next().text
			x = &EField{p, x, name}
		case lx.isOp("["):
			lx.next()
			var lo, hi Expr
			if lx.isOp(":") {
				lx.next()
				if !lx.isOp("]") {
					hi = lx.parseExpr()
				}
				lx.expect("]")
				x = &ESlice{p, x, nil, hi}
				continue
			}
			lo = lx.parseExpr()
			if lx.accept(":") {
				if !lx.isOp("]") {
					hi = lx.parseExpr()
				}
				lx.expect("]")
				x = &ESlice{p, x, lo, hi}
				continue
			}
			lx.expect("]")
			x = &EIndex{p, x, lo}
		default:
			return x
		}
	}
}

// ---------- File loading ----------

func loadContractsFromGo(path string) (*SpecFile, error) {
	data, err := os.ReadFile(path)
	if err != nil {
		return nil, err
	}
	var lines []string
	var nos []int
	for i, l := range strings.Split(string(data), "\n") {
		t := strings.TrimSpace(l)
		if strings.HasPrefix(t, "//@") {
			lines = append(lines, t[3:])
			nos = append(nos, i+1)
		}
	}
	return parseSpecFile(path, lines, nos)
}

func loadSpecFile(path string) (*SpecFile, error) {
	data, err := os.ReadFile(path)
	if err != nil {
		return nil, err
	}
	lines := strings.Split(string(data), "\n")
	nos := make([]int, len(lines))
	for i := range lines {
		nos[i] = i + 1
	}
	return parseSpecFile(path, lines, nos)
}
