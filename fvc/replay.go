package main

// Replay of a solver counterexample on the real code.
//
// For functions whose inputs are plain values (integers, booleans, strings, byte/rune/int
// slices) and, optionally, a *Scanner receiver, the model of a failed obligation is turned
// into an in-package Go test that is injected with `go test -overlay` (nothing is written to
// /repo). The test builds the pre-state, calls the real function and prints what it observed
// (results, scanner fields, number of diagnostics, or the panic). The verdict is then taken by
// the solver again: the failed verification condition is re-checked with the inputs fixed to the
// model and the outputs fixed to the values observed on the real code. If it is still
// satisfiable, the real execution is a witness of the violated clause ("confirmed"); a panic
// observed for a no-panic obligation confirms it directly.

import (
	"encoding/json"
	"fmt"
	"go/types"
	"os"
	"os/exec"
	"path/filepath"
	"sort"
	"strconv"
	"strings"

	"golang.org/x/tools/go/ssa"
)

type namedTerm struct {
	Name string // Go-side name: parameter name, "s.pos", "result0", ...
	T    *Term
	Typ  types.Type
}

type replayInfo struct {
	class    string // "" (not replayable), "plain", "scanner"
	recv     string // receiver parameter name for class scanner
	inputs   []namedTerm
	ownerLen *Term // number of diagnostics of the owning parser at entry (scanner class)
	ownerFn  *Term // fn_id of the scanner's callback at entry
}

// scannerFields: the fields of Scanner that make up its state (function-typed onError apart).
var scannerFields = []string{"text", "pos", "end", "startPos", "tokenPos", "token", "tokenValue", "tokenFlags"}

func replayable(t types.Type) bool {
	switch ut := t.Underlying().(type) {
	case *types.Basic:
		return ut.Info()&(types.IsInteger|types.IsBoolean|types.IsString) != 0
	case *types.Slice:
		if b, ok := ut.Elem().Underlying().(*types.Basic); ok {
			return b.Info()&types.IsInteger != 0
		}
	}
	return false
}

// planReplay decides whether fn's inputs can be rebuilt from a model and records the terms.
func (fc *FuncCtx) planReplay(st *State) {
	u := fc.u
	fn := fc.fn
	ri := &replayInfo{}
	fc.replay = ri
	if fn.TypeParams().Len() > 0 || len(fn.TypeArgs()) > 0 || fn.Parent() != nil {
		return
	}
	class := "plain"
	for i, p := range fn.Params {
		if i == 0 && fn.Signature.Recv() != nil {
			if u.typeName(p.Type()) == "*Scanner" {
				class = "scanner"
				ri.recv = p.Name()
				ref := fc.params[p.Name()].T
				_, s := derefStruct(p.Type())
				stT, _ := derefStruct(p.Type())
				for _, fname := range scannerFields {
					for k := 0; k < s.NumFields(); k++ {
						f := s.Field(k)
						if f.Name() != fname {
							continue
						}
						srt := u.sortOf(f.Type())
						fc.declSort(srt)
						ri.inputs = append(ri.inputs, namedTerm{p.Name() + "." + fname, st.heap.read(fc.d, u.fieldKey(stT, f), srt, ref), f.Type()})
					}
				}
				// callback and the owning parser's diagnostics
				for k := 0; k < s.NumFields(); k++ {
					f := s.Field(k)
					if f.Name() == "onError" {
						cb := st.heap.read(fc.d, u.fieldKey(stT, f), SFn, ref)
						ri.ownerFn = App(SInt, "fn_id", cb)
						owner := App(SInt, "fn_recv", cb)
						if pt, err := u.parseType("*Parser"); err == nil {
							pst, ps := derefStruct(pt)
							for j := 0; j < ps.NumFields(); j++ {
								if ps.Field(j).Name() == "parseDiagnostics" {
									srt := u.sortOf(ps.Field(j).Type())
									fc.declSort(srt)
									ri.ownerLen = SeqLen(st.heap.read(fc.d, u.fieldKey(pst, ps.Field(j)), srt, owner))
								}
							}
						}
					}
				}
				continue
			}
			return // other receivers: not replayable
		}
		if !replayable(p.Type()) {
			return
		}
		ri.inputs = append(ri.inputs, namedTerm{p.Name(), fc.params[p.Name()].T, p.Type()})
	}
	ri.class = class
}

// observables at a normal return of the root function: results and scanner post-state.
func (fc *FuncCtx) observablesAt(st *State, results []SVal) []namedTerm {
	ri := fc.replay
	if ri == nil || ri.class == "" {
		return nil
	}
	u := fc.u
	var out []namedTerm
	for i, r := range results {
		if r.T != nil && r.Typ != nil && replayable(r.Typ) {
			out = append(out, namedTerm{fmt.Sprintf("result%d", i), r.T, r.Typ})
		}
	}
	if ri.class == "scanner" {
		p := fc.fn.Params[0]
		ref := fc.params[p.Name()].T
		stT, s := derefStruct(p.Type())
		for _, fname := range scannerFields {
			if fname == "text" || fname == "end" {
				continue
			}
			for k := 0; k < s.NumFields(); k++ {
				f := s.Field(k)
				if f.Name() == fname {
					srt := u.sortOf(f.Type())
					out = append(out, namedTerm{p.Name() + "." + fname, st.heap.read(fc.d, u.fieldKey(stT, f), srt, ref), f.Type()})
				}
			}
		}
	}
	return out
}

// ---------- s-expressions ----------

type sx struct {
	atom string
	list []*sx
}

func parseSx(s string) []*sx {
	var stack [][]*sx
	cur := []*sx{}
	i := 0
	for i < len(s) {
		c := s[i]
		switch {
		case c == '(':
			stack = append(stack, cur)
			cur = []*sx{}
			i++
		case c == ')':
			n := &sx{list: cur}
			if len(stack) == 0 {
				return cur
			}
			cur = append(stack[len(stack)-1], n)
			stack = stack[:len(stack)-1]
			i++
		case c == ' ' || c == '\n' || c == '\t' || c == '\r':
			i++
		case c == '"':
			j := i + 1
			for j < len(s) && s[j] != '"' {
				j++
			}
			cur = append(cur, &sx{atom: s[i : j+1]})
			i = j + 1
		case c == '|':
			j := i + 1
			for j < len(s) && s[j] != '|' {
				j++
			}
			cur = append(cur, &sx{atom: s[i : j+1]})
			i = j + 1
		default:
			j := i
			for j < len(s) && !strings.ContainsRune("() \n\t\r", rune(s[j])) {
				j++
			}
			cur = append(cur, &sx{atom: s[i:j]})
			i = j
		}
	}
	return cur
}

func (x *sx) String() string {
	if x.list == nil {
		return x.atom
	}
	var parts []string
	for _, e := range x.list {
		parts = append(parts, e.String())
	}
	return "(" + strings.Join(parts, " ") + ")"
}

func sxInt(x *sx) (int64, bool) {
	if x.list == nil {
		if strings.HasPrefix(x.atom, "#x") {
			n, err := strconv.ParseUint(x.atom[2:], 16, 64)
			return int64(n), err == nil
		}
		if strings.HasPrefix(x.atom, "#b") {
			n, err := strconv.ParseUint(x.atom[2:], 2, 64)
			return int64(n), err == nil
		}
		n, err := strconv.ParseInt(x.atom, 10, 64)
		return n, err == nil
	}
	if len(x.list) == 2 && x.list[0].atom == "-" {
		n, ok := sxInt(x.list[1])
		return -n, ok
	}
	return 0, false
}

func sxSeq(x *sx) ([]int64, bool) {
	if x.list == nil {
		if x.atom == "\"\"" {
			return []int64{}, true
		}
		return nil, false
	}
	if len(x.list) == 0 {
		return nil, false
	}
	switch x.list[0].atom {
	case "as":
		if len(x.list) >= 2 && x.list[1].atom == "seq.empty" {
			return []int64{}, true
		}
	case "seq.unit":
		if len(x.list) == 2 {
			n, ok := sxInt(x.list[1])
			return []int64{n}, ok
		}
	case "seq.++":
		var out []int64
		for _, e := range x.list[1:] {
			s, ok := sxSeq(e)
			if !ok {
				return nil, false
			}
			out = append(out, s...)
		}
		return out, true
	}
	return nil, false
}

// ---------- values ----------

type rvalue struct {
	Kind string  `json:"kind"` // int | bool | seq
	I    int64   `json:"i,omitempty"`
	B    bool    `json:"b,omitempty"`
	S    []int64 `json:"s,omitempty"`
}

func valueOfSx(x *sx, sort Sort) (rvalue, bool) {
	switch {
	case sort == SInt || sort == SBV:
		n, ok := sxInt(x)
		return rvalue{Kind: "int", I: n}, ok
	case sort == SBool:
		if x.atom == "true" || x.atom == "false" {
			return rvalue{Kind: "bool", B: x.atom == "true"}, true
		}
	case sort.IsSeq() && sort.Elem() == SInt:
		s, ok := sxSeq(x)
		return rvalue{Kind: "seq", S: s}, ok
	}
	return rvalue{}, false
}

func (v rvalue) smt(sort Sort) string {
	lit := func(n int64) string {
		if n < 0 {
			return fmt.Sprintf("(- %d)", -n)
		}
		return fmt.Sprint(n)
	}
	switch v.Kind {
	case "int":
		if sort == SBV {
			return fmt.Sprintf("#x%016x", uint64(v.I))
		}
		return lit(v.I)
	case "bool":
		return fmt.Sprint(v.B)
	}
	if len(v.S) == 0 {
		return "(as seq.empty (Seq Int))"
	}
	if len(v.S) == 1 {
		return "(seq.unit " + lit(v.S[0]) + ")"
	}
	var parts []string
	for _, e := range v.S {
		parts = append(parts, "(seq.unit "+lit(e)+")")
	}
	return "(seq.++ " + strings.Join(parts, " ") + ")"
}

// goLit renders the value as a Go expression of type t.
func (v rvalue) goLit(u *Universe, t types.Type) string {
	tn := u.typeName(t)
	switch v.Kind {
	case "int":
		if b, ok := t.Underlying().(*types.Basic); ok && b.Info()&types.IsUnsigned != 0 {
			return fmt.Sprintf("%s(%d)", tn, uint64(v.I))
		}
		return fmt.Sprintf("%s(%d)", tn, v.I)
	case "bool":
		return fmt.Sprint(v.B)
	}
	var parts []string
	for _, e := range v.S {
		parts = append(parts, fmt.Sprint(e))
	}
	if b, ok := t.Underlying().(*types.Basic); ok && b.Info()&types.IsString != 0 {
		return fmt.Sprintf("%s([]byte{%s})", tn, strings.Join(parts, ", "))
	}
	return fmt.Sprintf("%s{%s}", tn, strings.Join(parts, ", "))
}

// ---------- the replay itself ----------

func solverValues(smt string, terms []*Term, scratch string) ([]*sx, bool) {
	var ts []string
	for _, t := range terms {
		ts = append(ts, t.S)
	}
	q := strings.Replace(smt, "(check-sat)", "(check-sat)\n(get-value ("+strings.Join(ts, " ")+"))", 1)
	f := filepath.Join(scratch, "replay-values.smt2")
	if os.WriteFile(f, []byte(q), 0o644) != nil {
		return nil, false
	}
	st, out, _ := runSolver("z3-new", 20, f)
	if st != "sat" {
		return nil, false
	}
	rest := out[strings.Index(out, "\n")+1:]
	top := parseSx(rest)
	if len(top) == 0 || top[0].list == nil {
		return nil, false
	}
	var vals []*sx
	for _, pair := range top[0].list {
		if len(pair.list) != 2 {
			return nil, false
		}
		vals = append(vals, pair.list[1])
	}
	return vals, len(vals) == len(terms)
}

func tryReplayOb(u *Universe, ob *Obligation, detail map[string]interface{}, scratch string) bool {
	if ob == nil || ob.fc == nil || ob.fc.replay == nil || ob.fc.replay.class == "" || ob.Result == nil || ob.Result.Model == "" || ob.Result.Relaxed {
		if ob != nil && ob.fc != nil && (ob.fc.replay == nil || ob.fc.replay.class == "") {
			detail["replay"] = map[string]interface{}{"verdict": "not attempted: the inputs of this function are not plain values or a scanner state (no constructor for a reachable pre-state)"}
		}
		return false
	}
	fc := ob.fc
	ri := fc.replay
	os.MkdirAll(scratch, 0o755)
	base := ob.smt(false)
	var terms []*Term
	for _, in := range ri.inputs {
		terms = append(terms, in.T)
	}
	extra := 0
	if ri.class == "scanner" && ri.ownerFn != nil && ri.ownerLen != nil {
		terms = append(terms, ri.ownerFn, ri.ownerLen)
		extra = 2
	}
	// well-formed inputs: bytes are 0..255, texts are short (a replay wants a small witness)
	var wf []string
	for _, in := range ri.inputs {
		if !in.T.Sort.IsSeq() {
			continue
		}
		lo, hi := int64(0), int64(255)
		if sl, ok := in.Typ.Underlying().(*types.Slice); ok {
			if b, ok := sl.Elem().Underlying().(*types.Basic); ok && b.Kind() != types.Uint8 {
				lo, hi = -2147483648, 2147483647
				if b.Kind() == types.Int || b.Kind() == types.Int64 {
					lo, hi = -1<<40, 1<<40
				}
			}
		}
		wf = append(wf, fmt.Sprintf("(assert (<= (seq.len %s) 24))", in.T.S))
		for k := 0; k < 24; k++ {
			wf = append(wf, fmt.Sprintf("(assert (=> (< %d (seq.len %s)) (and (<= %s (seq.nth %s %d)) (<= (seq.nth %s %d) %d))))", k, in.T.S, IntLit(lo).S, in.T.S, k, in.T.S, k, hi))
		}
	}
	base = strings.Replace(base, "(check-sat)", strings.Join(wf, "\n")+"\n(check-sat)", 1)
	vals, ok := solverValues(base, terms, scratch)
	rep := map[string]interface{}{"class": ri.class}
	detail["replay"] = rep
	if !ok {
		rep["verdict"] = "not replayed: the solver gave no values for the inputs"
		return false
	}
	inVals := make([]rvalue, len(ri.inputs))
	inShown := map[string]string{}
	for i, in := range ri.inputs {
		v, ok := valueOfSx(vals[i], in.T.Sort)
		if !ok {
			rep["verdict"] = "not replayed: value of " + in.Name + " is not a literal: " + vals[i].String()
			return false
		}
		if v.Kind == "seq" && len(v.S) > 1<<16 {
			rep["verdict"] = "not replayed: input too large"
			return false
		}
		inVals[i] = v
		inShown[in.Name] = v.goLit(u, in.Typ)
	}
	rep["inputs"] = inShown
	owned := false
	nd := int64(0)
	if extra == 2 {
		fid, _ := sxInt(vals[len(vals)-2])
		n, _ := sxInt(vals[len(vals)-1])
		if fid == int64(u.funcID("(*Parser).scanError")) {
			owned = true
			nd = n
			if nd < 0 || nd > 1000 {
				nd = 0
			}
		}
	}
	// the test
	var sb strings.Builder
	sb.WriteString("package formula\n\nimport (\n\t\"encoding/json\"\n\t\"fmt\"\n\t\"testing\"\n)\n\n")
	sb.WriteString("func TestFvcReplay(t *testing.T) {\n\tobs := map[string]interface{}{}\n")
	sb.WriteString("\tdefer func() {\n\t\tif r := recover(); r != nil {\n\t\t\tobs[\"panic\"] = fmt.Sprint(r)\n\t\t}\n\t\tb, _ := json.Marshal(obs)\n\t\tfmt.Printf(\"FVC-REPLAY %s\\n\", b)\n\t}()\n")
	sb.WriteString("\tints := func(b []byte) []int { r := []int{}; for _, x := range b { r = append(r, int(x)) }; return r }\n\t_ = ints\n")
	fn := fc.fn
	var args []string
	recvExpr := ""
	if ri.class == "scanner" {
		sb.WriteString("\ts := &Scanner{}\n")
		for i, in := range ri.inputs {
			if strings.HasPrefix(in.Name, ri.recv+".") {
				fmt.Fprintf(&sb, "\ts.%s = %s\n", strings.TrimPrefix(in.Name, ri.recv+"."), inVals[i].goLit(u, in.Typ))
			}
		}
		if owned {
			sb.WriteString("\tp := &Parser{scanner: s}\n")
			fmt.Fprintf(&sb, "\tfor i := 0; i < %d; i++ { p.parseDiagnostics = append(p.parseDiagnostics, &Diagnostic{Start: -7 - i}) }\n", nd)
			sb.WriteString("\ts.onError = p.scanError\n")
		}
		recvExpr = "s."
	}
	for i, in := range ri.inputs {
		if ri.class == "scanner" && strings.HasPrefix(in.Name, ri.recv+".") {
			continue
		}
		args = append(args, inVals[i].goLit(u, in.Typ))
	}
	nres := fn.Signature.Results().Len()
	var lhs []string
	for i := 0; i < nres; i++ {
		lhs = append(lhs, fmt.Sprintf("r%d", i))
	}
	call := recvExpr + fn.Name() + "(" + strings.Join(args, ", ") + ")"
	if fn.Signature.Variadic() {
		call = recvExpr + fn.Name() + "(" + strings.Join(args, ", ") + "...)"
	}
	if nres > 0 {
		fmt.Fprintf(&sb, "\t%s := %s\n", strings.Join(lhs, ", "), call)
	} else {
		fmt.Fprintf(&sb, "\t%s\n", call)
	}
	for i := 0; i < nres; i++ {
		rt := fn.Signature.Results().At(i).Type()
		switch {
		case !replayable(rt):
			fmt.Fprintf(&sb, "\t_ = r%d\n", i)
		case u.sortOf(rt) == SStr:
			fmt.Fprintf(&sb, "\tobs[\"result%d\"] = ints([]byte(r%d))\n", i, i)
		case u.sortOf(rt).IsSeq():
			fmt.Fprintf(&sb, "\t{ r := []int{}; for _, x := range r%d { r = append(r, int(x)) }; obs[\"result%d\"] = r }\n", i, i)
		case u.sortOf(rt) == SBool:
			fmt.Fprintf(&sb, "\tobs[\"result%d\"] = r%d\n", i, i)
		default:
			fmt.Fprintf(&sb, "\tobs[\"result%d\"] = int64(r%d)\n", i, i)
		}
	}
	if ri.class == "scanner" {
		sb.WriteString("\tobs[\"" + ri.recv + ".pos\"] = int64(s.pos)\n\tobs[\"" + ri.recv + ".startPos\"] = int64(s.startPos)\n\tobs[\"" + ri.recv + ".tokenPos\"] = int64(s.tokenPos)\n")
		sb.WriteString("\tobs[\"" + ri.recv + ".token\"] = int64(s.token)\n\tobs[\"" + ri.recv + ".tokenFlags\"] = int64(s.tokenFlags)\n\tobs[\"" + ri.recv + ".tokenValue\"] = ints([]byte(s.tokenValue))\n")
		if owned {
			sb.WriteString("\tobs[\"diagnostics\"] = int64(len(p.parseDiagnostics))\n")
		}
	}
	sb.WriteString("}\n")
	src := sb.String()
	rep["test"] = src
	testFile := filepath.Join(scratch, "zz_fvc_replay_test.go")
	ovFile := filepath.Join(scratch, "overlay.json")
	os.WriteFile(testFile, []byte(src), 0o644)
	ov, _ := json.Marshal(map[string]interface{}{"Replace": map[string]string{filepath.Join(u.repo, "zz_fvc_replay_test.go"): testFile}})
	os.WriteFile(ovFile, ov, 0o644)
	cmd := exec.Command("go", "test", "-overlay", ovFile, "-vet=off", "-count=1", "-timeout", "60s", "-run", "^TestFvcReplay$", "-v", ".")
	cmd.Dir = u.repo
	cmd.Env = append(os.Environ(), "GOFLAGS=-mod=mod", "GOPROXY=off", "GOSUMDB=off", "GOTOOLCHAIN=local")
	outB, _ := cmd.CombinedOutput()
	out := string(outB)
	rep["command"] = "cd " + u.repo + " && go test -overlay <overlay> -vet=off -count=1 -timeout 60s -run ^TestFvcReplay$ -v ."
	idx := strings.Index(out, "FVC-REPLAY ")
	if idx < 0 {
		rep["verdict"] = "not replayed: the test did not run"
		rep["output"] = trimOut(out)
		return false
	}
	line := out[idx+len("FVC-REPLAY "):]
	if j := strings.Index(line, "\n"); j >= 0 {
		line = line[:j]
	}
	var obs map[string]interface{}
	if json.Unmarshal([]byte(line), &obs) != nil {
		rep["verdict"] = "not replayed: unreadable observation"
		return false
	}
	rep["observed"] = obs
	if p, ok := obs["panic"]; ok {
		rep["verdict"] = fmt.Sprintf("confirmed on the real code: the call panics (%v)", p)
		return true
	}
	if ob.Kind == "panic" {
		rep["verdict"] = "not reproduced: the real call did not panic for the model's input"
		return false
	}
	if len(ob.Obs) == 0 {
		rep["verdict"] = "not judged: the failed obligation is not at a return of the function"
		return false
	}
	// re-check the verification condition with inputs and observed outputs fixed
	var asserts []string
	for i, in := range ri.inputs {
		asserts = append(asserts, fmt.Sprintf("(assert (= %s %s))", in.T.S, inVals[i].smt(in.T.Sort)))
	}
	names := make([]string, 0, len(ob.Obs))
	for _, o := range ob.Obs {
		names = append(names, o.Name)
	}
	sort.Strings(names)
	for _, o := range ob.Obs {
		raw, has := obs[o.Name]
		if !has {
			continue
		}
		var v rvalue
		switch x := raw.(type) {
		case float64:
			v = rvalue{Kind: "int", I: int64(x)}
		case bool:
			v = rvalue{Kind: "bool", B: x}
		case []interface{}:
			v = rvalue{Kind: "seq"}
			for _, e := range x {
				if f, ok := e.(float64); ok {
					v.S = append(v.S, int64(f))
				}
			}
		default:
			continue
		}
		asserts = append(asserts, fmt.Sprintf("(assert (= %s %s))", o.T.S, v.smt(o.T.Sort)))
	}
	q := strings.Replace(base, "(check-sat)", strings.Join(asserts, "\n")+"\n(check-sat)", 1)
	f2 := filepath.Join(scratch, "replay-judge.smt2")
	os.WriteFile(f2, []byte(q), 0o644)
	st, _, _ := runSolver("z3-new", 20, f2)
	switch st {
	case "sat":
		rep["verdict"] = "confirmed on the real code: with the inputs of the model the real function returns the observed values, and with them the clause is false"
		return true
	case "unsat":
		rep["verdict"] = "not reproduced: the real function's observed outputs differ from the model's (the model depends on an assumed function the real code resolves differently)"
	default:
		rep["verdict"] = "not judged: the solver did not decide the replayed condition (" + st + ")"
	}
	return false
}

var _ = ssa.NaiveForm
