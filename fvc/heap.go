package main

// Layered heap: reads are resolved by the generator, so verification conditions stay
// quantifier-free in the heap (DESIGN §2.3).

import (
	"fmt"
	"strings"
)

type havEntry struct {
	ref *Term
	val *Term
}

type Heap struct {
	below *Heap
	kind  int // 0 base, 1 store, 2 havoc layer (call or loop)
	depth int

	// store layer
	key string
	ref *Term
	val *Term

	// havoc layer
	id     int
	mark   *Term // objects with ref >= mark were allocated inside the layer
	hav    map[string][]havEntry
	havAll map[string]bool
	all    bool
	tag    string
	// loop layers: objects allocated by the function itself before the loop (ref >= freshFrom)
	// may be written by the loop body without appearing in the assigns clause
	freshFrom *Term
}

func baseHeap() *Heap { return &Heap{kind: 0} }

func (h *Heap) store(key string, ref, val *Term) *Heap {
	return &Heap{below: h, kind: 1, key: key, ref: ref, val: val, depth: h.depth + 1}
}

var layerCounter int

func (h *Heap) havoc(tag string, mark *Term) *Heap {
	layerCounter++
	return &Heap{below: h, kind: 2, id: layerCounter, mark: mark, hav: map[string][]havEntry{}, havAll: map[string]bool{}, depth: h.depth + 1, tag: tag}
}

func arrName(prefix, key string) string {
	return prefix + "!" + sanitize(key)
}

// read returns the value of field `key` (values of sort vs) of object ref.
func (h *Heap) read(d *Decls, key string, vs Sort, ref *Term) *Term {
	switch h.kind {
	case 0:
		return Select(d.Const(arrName("H0", key), ArrOf(SInt, vs)), ref)
	case 1:
		if h.key != key {
			return h.below.read(d, key, vs, ref)
		}
		c := refEq(ref, h.ref)
		if c.S == "true" {
			return h.val
		}
		if c.S == "false" {
			return h.below.read(d, key, vs, ref)
		}
		return Ite(c, h.val, h.below.read(d, key, vs, ref))
	default:
		newArr := d.Const(arrName(fmt.Sprintf("N%d", h.id), key), ArrOf(SInt, vs))
		var res *Term
		if h.all || h.havAll[key] {
			res = Select(d.Const(arrName(fmt.Sprintf("A%d", h.id), key), ArrOf(SInt, vs)), ref)
		} else {
			res = h.below.read(d, key, vs, ref)
			for _, e := range h.hav[key] {
				c := refEq(ref, e.ref)
				res = Ite(c, e.val, res)
			}
		}
		if ref.S == "0" || d.isOld(ref) {
			return res
		}
		if h.freshFrom != nil {
			la := d.Const(arrName(fmt.Sprintf("L%d", h.id), key), ArrOf(SInt, vs))
			if ref.S == h.freshFrom.S || strings.HasPrefix(ref.S, "(+ "+h.freshFrom.S+" ") {
				return Select(la, ref)
			}
			return Ite(Ge(ref, h.freshFrom), Select(la, ref), res)
		}
		fresh := Ge(ref, h.mark)
		// syntactic shortcut: ref is (+ mark k) or mark itself
		if ref.S == h.mark.S || strings.HasPrefix(ref.S, "(+ "+h.mark.S+" ") {
			return Select(newArr, ref)
		}
		return Ite(fresh, Select(newArr, ref), res)
	}
}

// refEq decides equality of reference terms syntactically when it can.
func refEq(a, b *Term) *Term {
	if a.S == b.S {
		return TTrue
	}
	ba, oa, oka := splitOffset(a)
	bb, ob, okb := splitOffset(b)
	if oka && okb && ba == bb && oa != ob {
		return TFalse
	}
	return Eq(a, b)
}

// splitOffset parses "(+ base n)" or "base".
func splitOffset(t *Term) (string, int64, bool) {
	s := t.S
	if strings.HasPrefix(s, "(+ ") && strings.HasSuffix(s, ")") {
		inner := s[3 : len(s)-1]
		i := strings.LastIndexByte(inner, ' ')
		if i > 0 {
			if n, ok := isIntLit(&Term{inner[i+1:], SInt}); ok && !strings.ContainsAny(inner[:i], " ()") {
				return inner[:i], n, true
			}
		}
		return "", 0, false
	}
	if !strings.ContainsAny(s, " ()") {
		if _, isLit := isIntLit(t); isLit {
			return "", 0, false
		}
		return s, 0, true
	}
	return "", 0, false
}
