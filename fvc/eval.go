package main

// Evaluation of spec-language expressions to terms, against a symbolic state.

import (
	"fmt"
	"go/constant"
	"go/types"
	"strconv"
	"strings"
)

type Val struct {
	T     *Term
	Typ   types.Type
	Tuple []Val
}

type Env struct {
	fc       *FuncCtx
	heap     *Heap
	oldHeap  *Heap
	alloc    *Term
	oldAlloc *Term
	vars     map[string]Val
	oldVars  map[string]Val // values of names inside old(...) (entry values of locals)
	side     *[]*Term
	fuel     map[string]int
	inQuant  int
	pos      Pos
}

func (e *Env) clone() *Env {
	n := *e
	n.vars = map[string]Val{}
	for k, v := range e.vars {
		n.vars[k] = v
	}
	return &n
}

func (e *Env) fail(p Pos, f string, a ...interface{}) {
	panic(fmt.Errorf("%s: %s", p, fmt.Sprintf(f, a...)))
}

func (e *Env) addSide(t *Term) {
	if e.side != nil && e.inQuant == 0 && t.S != "true" {
		*e.side = append(*e.side, t)
	}
}

func (e *Env) evalBool(x Expr) *Term {
	v := e.eval(x)
	if v.T == nil || v.T.Sort != SBool {
		e.fail(x.exprPos(), "expected boolean expression, got sort %v", sortOfVal(v))
	}
	return v.T
}

func sortOfVal(v Val) Sort {
	if v.T == nil {
		return "tuple"
	}
	return v.T.Sort
}

func (e *Env) eval(x Expr) Val {
	u := e.fc.u
	switch x := x.(type) {
	case *EInt:
		if strings.HasPrefix(x.V, "0x") || strings.HasPrefix(x.V, "0X") {
			n, _ := strconv.ParseUint(x.V[2:], 16, 64)
			return Val{T: IntLit(int64(n)), Typ: types.Typ[types.Int]}
		}
		return Val{T: BigIntLit(x.V), Typ: types.Typ[types.Int]}
	case *EStr:
		return Val{T: StrLit(x.V), Typ: types.Typ[types.String]}
	case *EBool:
		return Val{T: BoolLit(x.V), Typ: types.Typ[types.Bool]}
	case *ENil:
		return Val{T: IntLit(0), Typ: types.Typ[types.UntypedNil]}
	case *EIdent:
		return e.evalIdent(x)
	case *EOld:
		n := *e
		n.heap = e.oldHeap
		n.alloc = e.oldAlloc
		if e.oldVars != nil {
			n.vars = map[string]Val{}
			for k, v := range e.vars {
				n.vars[k] = v
			}
			for k, v := range e.oldVars {
				n.vars[k] = v
			}
		}
		return n.eval(x.X)
	case *ELet:
		n := e.clone()
		n.vars[x.Name] = e.eval(x.V)
		return n.eval(x.Body)
	case *EUnary:
		v := e.eval(x.X)
		switch x.Op {
		case "!":
			return Val{T: Not(v.T), Typ: types.Typ[types.Bool]}
		case "-":
			return Val{T: Neg(v.T), Typ: v.Typ}
		case "^":
			if v.T.Sort == SBV {
				return Val{T: App(SBV, "bvnot", v.T), Typ: v.Typ}
			}
			return Val{T: Sub(Neg(v.T), IntLit(1)), Typ: v.Typ}
		}
	case *EBinary:
		return e.evalBinary(x)
	case *ECond:
		c := e.evalBool(x.C)
		a := e.eval(x.A)
		b := e.eval(x.B)
		a, b = e.unify(a, b)
		return Val{T: Ite(c, a.T, b.T), Typ: a.Typ}
	case *EField:
		if id, ok := x.X.(*EIdent); ok {
			if _, bound := e.vars[id.Name]; !bound && u.tpkg.Scope().Lookup(id.Name) == nil {
				for _, imp := range u.tpkg.Imports() {
					if imp.Name() == id.Name {
						switch o := imp.Scope().Lookup(x.Name).(type) {
						case *types.Var:
							return e.fc.readGlobal(e.heap, o)
						case *types.Const:
							return e.fc.constVal(o.Val(), o.Type())
						}
					}
				}
			}
		}
		base := e.eval(x.X)
		return e.fieldOf(x.P, base, x.Name)
	case *EIndex:
		base := e.eval(x.X)
		idx := e.eval(x.I)
		if base.T.Sort.IsSeq() {
			var et types.Type
			if base.Typ != nil {
				switch bt := base.Typ.Underlying().(type) {
				case *types.Slice:
					et = bt.Elem()
				case *types.Array:
					et = bt.Elem()
				case *types.Basic:
					et = types.Typ[types.Byte]
				}
			}
			r := fc0(e).elemGet(base.T, idx.T, et)
			if e.inQuant == 0 {
				e.addSide(fc0(e).objInvFact(e.heap, e.alloc, r, et))
			}
			return Val{T: r, Typ: et}
		}
		if base.Typ != nil {
			if mt, ok := base.Typ.Underlying().(*types.Map); ok {
				v := e.fc.mapLookup(e.heap, mt, base.T, idx.T)
				return Val{T: v, Typ: mt.Elem()}
			}
		}
		if strings.HasPrefix(string(base.T.Sort), "(Array ") {
			return Val{T: Select(base.T, idx.T)}
		}
		e.fail(x.P, "cannot index value of sort %s", base.T.Sort)
	case *ESlice:
		base := e.eval(x.X)
		if !base.T.Sort.IsSeq() {
			e.fail(x.P, "cannot slice value of sort %s", base.T.Sort)
		}
		lo := IntLit(0)
		if x.Lo != nil {
			lo = e.eval(x.Lo).T
		}
		hi := SeqLen(base.T)
		if x.Hi != nil {
			hi = e.eval(x.Hi).T
		}
		return Val{T: SeqSlice(base.T, lo, hi), Typ: base.Typ}
	case *EQuant:
		n := e.clone()
		n.inQuant++
		var binders []string
		var guards []*Term
		for _, p := range x.Vars {
			s, t, err := u.specSort(p.Type)
			if err != nil {
				e.fail(x.P, "%v", err)
			}
			e.fc.qn++
			name := fmt.Sprintf("%s!q%d", p.Name, e.fc.qn)
			n.vars[p.Name] = Val{T: &Term{name, s}, Typ: t}
			binders = append(binders, fmt.Sprintf("(%s %s)", name, s))
			_ = guards
		}
		body := n.evalBool(x.Body)
		q := "exists"
		if x.Forall {
			q = "forall"
		}
		if body.S == "true" || body.S == "false" {
			return Val{T: body, Typ: types.Typ[types.Bool]}
		}
		return Val{T: &Term{fmt.Sprintf("(%s (%s) %s)", q, strings.Join(binders, " "), body.S), SBool}, Typ: types.Typ[types.Bool]}
	case *ECall:
		return e.evalCall(x)
	}
	e.fail(x.exprPos(), "unsupported expression %T", x)
	return Val{}
}

func fc0(e *Env) *FuncCtx { return e.fc }

func (e *Env) evalIdent(x *EIdent) Val {
	if v, ok := e.vars[x.Name]; ok {
		return v
	}
	u := e.fc.u
	if g, ok := u.ghostGlobals[x.Name]; ok {
		gs, gt, err := u.specSort(g.Type)
		if err != nil {
			e.fail(x.P, "%v", err)
		}
		e.fc.declSort(gs)
		return Val{T: e.heap.read(e.fc.d, "global:$"+x.Name, gs, IntLit(0)), Typ: gt}
	}
	// package-level constant or variable
	if obj := u.tpkg.Scope().Lookup(x.Name); obj != nil {
		switch o := obj.(type) {
		case *types.Const:
			return e.fc.constVal(o.Val(), o.Type())
		case *types.Var:
			return e.fc.readGlobal(e.heap, o)
		}
	}
	e.fail(x.P, "unknown identifier %q", x.Name)
	return Val{}
}

func (fc *FuncCtx) constVal(cv constant.Value, t types.Type) Val {
	u := fc.u
	s := u.sortOf(t)
	switch cv.Kind() {
	case constant.Bool:
		return Val{T: BoolLit(constant.BoolVal(cv)), Typ: t}
	case constant.String:
		return Val{T: StrLit(constant.StringVal(cv)), Typ: t}
	case constant.Int:
		if s == SBV {
			n, _ := constant.Uint64Val(cv)
			if constant.Sign(cv) < 0 {
				i, _ := constant.Int64Val(cv)
				n = uint64(i)
			}
			return Val{T: BVLit(n), Typ: t}
		}
		if s == SF64 {
			return Val{T: fc.f64Const(cv.ExactString()), Typ: t}
		}
		return Val{T: BigIntLit(cv.ExactString()), Typ: t}
	case constant.Float:
		if s == SInt {
			if iv := constant.ToInt(cv); iv.Kind() == constant.Int {
				return Val{T: BigIntLit(iv.ExactString()), Typ: t}
			}
		}
		return Val{T: fc.f64Const(cv.ExactString()), Typ: t}
	}
	return Val{T: fc.d.Fresh("const", s), Typ: t}
}

func (fc *FuncCtx) f64Const(text string) *Term {
	return fc.d.Const("f64c!"+sanitize(text), SF64)
}

func (e *Env) unify(a, b Val) (Val, Val) {
	// nil literal against Any / Fn / Str
	if a.T.Sort != b.T.Sort {
		if isNilLit(a) {
			a = Val{T: nilOf(b.T.Sort), Typ: b.Typ}
		} else if isNilLit(b) {
			b = Val{T: nilOf(a.T.Sort), Typ: a.Typ}
		} else if a.T.Sort == SBV && b.T.Sort == SInt {
			if n, ok := isIntLit(b.T); ok {
				b = Val{T: BVLit(uint64(n)), Typ: a.Typ}
			}
		} else if b.T.Sort == SBV && a.T.Sort == SInt {
			if n, ok := isIntLit(a.T); ok {
				a = Val{T: BVLit(uint64(n)), Typ: b.Typ}
			}
		}
	}
	return a, b
}

func isNilLit(v Val) bool {
	if v.Typ == nil {
		return false
	}
	b, ok := v.Typ.(*types.Basic)
	return ok && b.Kind() == types.UntypedNil
}

func nilOf(s Sort) *Term {
	switch {
	case s == SAny:
		return &Term{"a_nil", SAny}
	case s == SFn:
		return &Term{"(mk_fn 0 0)", SFn}
	case s.IsSeq():
		return SeqEmpty(s)
	case s == SInt:
		return IntLit(0)
	}
	panic("no nil for sort " + string(s))
}

func (e *Env) evalBinary(x *EBinary) Val {
	tb := types.Typ[types.Bool]
	switch x.Op {
	case "&&":
		return Val{T: And(e.evalBool(x.X), e.evalBool(x.Y)), Typ: tb}
	case "||":
		return Val{T: Or(e.evalBool(x.X), e.evalBool(x.Y)), Typ: tb}
	case "==>":
		return Val{T: Implies(e.evalBool(x.X), e.evalBool(x.Y)), Typ: tb}
	case "<==>":
		return Val{T: Eq(e.evalBool(x.X), e.evalBool(x.Y)), Typ: tb}
	}
	a := e.eval(x.X)
	b := e.eval(x.Y)
	a, b = e.unify(a, b)
	if a.T.Sort != b.T.Sort {
		e.fail(x.P, "operands of %s have different sorts: %s vs %s", x.Op, a.T.Sort, b.T.Sort)
	}
	switch x.Op {
	case "==":
		return Val{T: Eq(a.T, b.T), Typ: tb}
	case "!=":
		return Val{T: Not(Eq(a.T, b.T)), Typ: tb}
	}
	if a.T.Sort == SBV {
		switch x.Op {
		case "&":
			return Val{T: App(SBV, "bvand", a.T, b.T), Typ: a.Typ}
		case "|":
			return Val{T: App(SBV, "bvor", a.T, b.T), Typ: a.Typ}
		case "^":
			return Val{T: App(SBV, "bvxor", a.T, b.T), Typ: a.Typ}
		}
		e.fail(x.P, "unsupported bit-vector operator %s", x.Op)
	}
	if a.T.Sort.IsSeq() {
		switch x.Op {
		case "++", "+":
			return Val{T: SeqConcat(a.T, b.T), Typ: a.Typ}
		case "<":
			return Val{T: e.fc.strLess(a.T, b.T), Typ: tb}
		case "<=":
			return Val{T: Or(Eq(a.T, b.T), e.fc.strLess(a.T, b.T)), Typ: tb}
		case ">":
			return Val{T: e.fc.strLess(b.T, a.T), Typ: tb}
		case ">=":
			return Val{T: Or(Eq(a.T, b.T), e.fc.strLess(b.T, a.T)), Typ: tb}
		}
		e.fail(x.P, "unsupported sequence operator %s", x.Op)
	}
	if a.T.Sort != SInt {
		e.fail(x.P, "operator %s on sort %s", x.Op, a.T.Sort)
	}
	switch x.Op {
	case "&", "|", "^", "&^":
		name := map[string]string{"&": "int_and", "|": "int_or", "^": "int_xor", "&^": "int_andnot"}[x.Op]
		e.fc.d.Fun(name, []Sort{SInt, SInt}, SInt)
		return Val{T: App(SInt, name, a.T, b.T), Typ: a.Typ}
	case "+":
		return Val{T: Add(a.T, b.T), Typ: a.Typ}
	case "-":
		return Val{T: Sub(a.T, b.T), Typ: a.Typ}
	case "*":
		return Val{T: Mul(a.T, b.T), Typ: a.Typ}
	case "/":
		return Val{T: GoQuo(a.T, b.T), Typ: a.Typ}
	case "%":
		return Val{T: GoRem(a.T, b.T), Typ: a.Typ}
	case "<":
		return Val{T: Lt(a.T, b.T), Typ: tb}
	case "<=":
		return Val{T: Le(a.T, b.T), Typ: tb}
	case ">":
		return Val{T: Gt(a.T, b.T), Typ: tb}
	case ">=":
		return Val{T: Ge(a.T, b.T), Typ: tb}
	}
	e.fail(x.P, "unsupported operator %s", x.Op)
	return Val{}
}

// strLess: byte-wise lexicographic order on (Seq Int) as an uninterpreted relation with
// the SMT-LIB str.< semantics is not available for Seq Int; declared uninterpreted.
func (fc *FuncCtx) strLess(a, b *Term) *Term {
	fc.d.Fun("seq_lt", []Sort{SStr, SStr}, SBool)
	return App(SBool, "seq_lt", a, b)
}

// fieldOf reads a (possibly promoted or ghost) field of a pointer or struct value.
func (e *Env) fieldOf(p Pos, base Val, name string) Val {
	fc := e.fc
	u := fc.u
	if base.Typ == nil {
		e.fail(p, "field %s of untyped value", name)
	}
	// ghost field?
	owner := base.Typ
	if pt, ok := owner.Underlying().(*types.Pointer); ok {
		owner = pt.Elem()
	}
	ownerName := u.typeName(owner)
	if g, ok := u.ghosts[ownerName+"."+name]; ok {
		s, t, err := u.specSort(g.Type)
		if err != nil {
			e.fail(p, "%v", err)
		}
		return Val{T: e.heap.read(fc.d, "ghost:"+ownerName+"."+name, s, base.T), Typ: t}
	}
	obj, index, _ := types.LookupFieldOrMethod(base.Typ, true, u.tpkg, name)
	fv, ok := obj.(*types.Var)
	if !ok || fv == nil {
		e.fail(p, "no field %s in %s", name, u.typeName(base.Typ))
	}
	cur := base
	for _, i := range index {
		st, s := derefStruct(cur.Typ)
		if s == nil {
			e.fail(p, "field path through non-struct %s", u.typeName(cur.Typ))
		}
		f := s.Field(i)
		_, isPtr := cur.Typ.Underlying().(*types.Pointer)
		if !isPtr && cur.T.Sort != SInt {
			// struct value: field function
			cur = Val{T: fc.structField(cur.T, st, f), Typ: f.Type()}
			continue
		}
		if _, isStruct := f.Type().Underlying().(*types.Struct); isStruct {
			// interior struct: same reference
			cur = Val{T: cur.T, Typ: types.NewPointer(f.Type())}
			continue
		}
		v := fc.readField(e.heap, e.alloc, st, f, cur.T, e)
		cur = Val{T: v, Typ: f.Type()}
	}
	return cur
}

func (fc *FuncCtx) structField(sv *Term, st types.Type, f *types.Var) *Term {
	fn := "fld_" + sanitize(fc.u.typeName(st)) + "_" + f.Name()
	s := fc.u.sortOf(f.Type())
	fc.declSortFor(st)
	fc.declSortFor(f.Type())
	fc.d.Fun(fn, []Sort{sv.Sort}, s)
	return App(s, fn, sv)
}

func (fc *FuncCtx) declSortFor(t types.Type) {
	s := fc.u.sortOf(t)
	fc.declSort(s)
}

func (fc *FuncCtx) declSort(s Sort) {
	str := string(s)
	if strings.HasPrefix(str, "U_") {
		fc.d.SortDecl(str)
		return
	}
	if s.IsSeq() {
		fc.declSort(s.Elem())
	}
	if strings.HasPrefix(str, "(Array ") {
		fc.declSort(arrKey(s))
		fc.declSort(arrVal(s))
	}
}

// readField reads a heap field and attaches well-formedness facts for references.
func (fc *FuncCtx) readField(h *Heap, alloc *Term, st types.Type, f *types.Var, ref *Term, e *Env) *Term {
	key := fc.u.fieldKey(st, f)
	s := fc.u.sortOf(f.Type())
	fc.declSort(s)
	v := h.read(fc.d, key, s, ref)
	if e != nil && alloc != nil {
		e.addSide(fc.wellFormed(v, f.Type(), alloc))
		if e.inQuant == 0 {
			e.addSide(fc.objInvFact(h, alloc, v, f.Type()))
		}
	}
	return v
}

// objInvFact: v != nil ==> inv(v), for pointer types with a declared object invariant.
func (fc *FuncCtx) objInvFact(h *Heap, alloc *Term, v *Term, t types.Type) *Term {
	oi := fc.u.objInvFor(t)
	if oi == nil || v.Sort != SInt {
		return TTrue
	}
	if _, lit := isIntLit(v); lit {
		return TTrue
	}
	key := "objinv:" + v.S + fmt.Sprintf("@%p", h)
	if fc.unfolded[key] {
		return TTrue
	}
	fc.unfolded[key] = true
	env := &Env{fc: fc, heap: h, oldHeap: h, alloc: alloc, oldAlloc: alloc, vars: map[string]Val{oi.Param: {T: v, Typ: t}}}
	return Implies(Not(Eq(v, IntLit(0))), env.evalBool(oi.E))
}

// wellFormed: references held by a value are allocated (strictly below the allocation mark).
func (fc *FuncCtx) wellFormed(v *Term, t types.Type, alloc *Term) *Term {
	if t == nil {
		return TTrue
	}
	switch t.Underlying().(type) {
	case *types.Pointer, *types.Map:
		if v.Sort == SInt {
			return And(Ge(v, IntLit(0)), Lt(v, alloc))
		}
	case *types.Interface:
		if v.Sort == SAny {
			is := func(c string) *Term { return &Term{"((_ is " + c + ") " + v.S + ")", SBool} }
			fc.d.Fun("tid_kind", []Sort{SInt}, SInt)
			kind := func(acc string, k int64) *Term { return Eq(App(SInt, "tid_kind", App(SInt, acc, v)), IntLit(k)) }
			impl := TTrue
			if it, ok := t.Underlying().(*types.Interface); ok && it.NumMethods() > 0 && !strings.Contains(v.S, "!q") {
				impl = Or(Eq(v, &Term{"a_nil", SAny}), fc.implements(v, t))
				// Go typing: the dynamic type of a non-nil value of interface type T is assignable to T
				// (stated for interface types of other packages, where reflect-based code needs it)
				if n, ok := t.(*types.Named); ok && n.Obj().Pkg() != fc.u.tpkg {
					if _, has := fc.u.specFuncs["assignableT"]; has {
						fc.d.Fun("sf_assignableT", []Sort{SInt, SInt}, SBool)
						impl = And(impl, Or(Eq(v, &Term{"a_nil", SAny}), App(SBool, "sf_assignableT", fc.anyTypeID(v), IntLit(int64(fc.u.typeID(t))))))
					}
				}
			}
			return And(impl,
				Implies(is("a_ref"), And(Ge(App(SInt, "a_ref_v", v), IntLit(0)), Lt(App(SInt, "a_ref_v", v), alloc), kind("a_ref_ty", 5))),
				Implies(is("a_int"), kind("a_int_ty", 3)),
				Implies(is("a_f64"), kind("a_f64_ty", 4)),
				Implies(is("a_fn"), kind("a_fn_ty", 6)),
				Implies(is("a_oth"), kind("a_oth_ty", 7)))
		}
	case *types.Signature:
		if v.Sort == SFn {
			return And(Ge(App(SInt, "fn_recv", v), IntLit(0)), Lt(App(SInt, "fn_recv", v), alloc))
		}
	}
	return TTrue
}

func (fc *FuncCtx) readGlobal(h *Heap, o *types.Var) Val {
	s := fc.u.sortOf(o.Type())
	fc.declSort(s)
	key := "global:" + o.Name()
	if o.Pkg() != fc.u.tpkg {
		key = "global:" + o.Pkg().Name() + "." + o.Name()
	}
	v := h.read(fc.d, key, s, IntLit(0))
	if o.Pkg() == fc.u.tpkg {
		for _, a := range fc.globalAssumptions(h, o.Name(), v) {
			fc.addAxiomIfGround(a)
		}
	}
	return Val{T: v, Typ: o.Type()}
}

// addAxiomIfGround records a fact that holds in every state of the function (facts about
// init-time values of never-written globals).
func (fc *FuncCtx) addAxiomIfGround(t *Term) {
	fc.addAxiom(t)
}

func (fc *FuncCtx) mapKeys(mt *types.Map) (string, string, Sort, Sort) {
	ks, vs := fc.u.sortOf(mt.Key()), fc.u.sortOf(mt.Elem())
	fc.declSort(ks)
	fc.declSort(vs)
	n := fc.u.typeName(mt)
	return "map:" + n + ".val", "map:" + n + ".dom", ArrOf(ks, vs), ArrOf(ks, SBool)
}

func (fc *FuncCtx) zeroOf(t types.Type) *Term {
	s := fc.u.sortOf(t)
	return fc.zeroOfSort(s)
}

func (fc *FuncCtx) zeroOfSort(s Sort) *Term {
	switch {
	case s == SInt:
		return IntLit(0)
	case s == SBool:
		return TFalse
	case s == SBV:
		return BVLit(0)
	case s == SAny:
		return &Term{"a_nil", SAny}
	case s == SFn:
		return &Term{"(mk_fn 0 0)", SFn}
	case s.IsSeq():
		return SeqEmpty(s)
	case s == SF64:
		return fc.d.Const("f64c!0", SF64)
	}
	fc.declSort(s)
	return fc.d.Const("zero!"+sanitize(string(s)), s)
}

// mapLookup: value of m[k] (zero value when absent or m is nil).
func (fc *FuncCtx) mapLookup(h *Heap, mt *types.Map, m, k *Term) *Term {
	vk, dk, vs, ds := fc.mapKeys(mt)
	val := Select(h.read(fc.d, vk, vs, m), k)
	dom := Select(h.read(fc.d, dk, ds, m), k)
	return Ite(And(Not(Eq(m, IntLit(0))), dom), val, fc.zeroOf(mt.Elem()))
}

func (fc *FuncCtx) mapHas(h *Heap, mt *types.Map, m, k *Term) *Term {
	_, dk, _, ds := fc.mapKeys(mt)
	dom := Select(h.read(fc.d, dk, ds, m), k)
	return And(Not(Eq(m, IntLit(0))), dom)
}

func (e *Env) evalCall(x *ECall) Val {
	fc := e.fc
	u := fc.u
	tb := types.Typ[types.Bool]
	ti := types.Typ[types.Int]
	arg := func(i int) Val {
		if i >= len(x.Args) {
			e.fail(x.P, "%s: missing argument %d", x.Fun, i+1)
		}
		return e.eval(x.Args[i])
	}
	switch x.Fun {
	case "len":
		a := arg(0)
		if a.T.Sort.IsSeq() {
			return Val{T: SeqLen(a.T), Typ: ti}
		}
		e.fail(x.P, "len of sort %s", a.T.Sort)
	case "hasPrefix":
		s, t := arg(0), arg(1)
		return Val{T: App(SBool, "seq.prefixof", t.T, s.T), Typ: tb}
	case "hasSuffix":
		s, t := arg(0), arg(1)
		return Val{T: App(SBool, "seq.suffixof", t.T, s.T), Typ: tb}
	case "contains":
		s, t := arg(0), arg(1)
		return Val{T: App(SBool, "seq.contains", s.T, t.T), Typ: tb}
	case "indexOf":
		s, t := arg(0), arg(1)
		return Val{T: App(SInt, "seq.indexof", s.T, t.T, IntLit(0)), Typ: ti}
	case "replaceAll":
		s, a, b := arg(0), arg(1), arg(2)
		fc.d.Fun("seq_replace_all", []Sort{SStr, SStr, SStr}, SStr)
		return Val{T: App(SStr, "seq_replace_all", s.T, a.T, b.T), Typ: s.Typ}
	case "unit":
		a := arg(0)
		var st types.Type
		if a.Typ != nil {
			st = types.NewSlice(a.Typ)
		}
		return Val{T: SeqUnit(fc.elemPut(a.T, a.Typ)), Typ: st}
	case "empty":
		s, t, err := u.specSort(x.Raw)
		if err != nil {
			e.fail(x.P, "%v", err)
		}
		return Val{T: SeqEmpty(s), Typ: t}
	case "is":
		a := arg(0)
		t, err := u.parseType(x.Raw)
		if err != nil {
			e.fail(x.P, "%v", err)
		}
		return Val{T: fc.anyIs(a.T, t), Typ: tb}
	case "as":
		a := arg(0)
		t, err := u.parseType(x.Raw)
		if err != nil {
			e.fail(x.P, "%v", err)
		}
		return Val{T: fc.anyUnwrap(a.T, t), Typ: t}
	case "ptr": // ptr(refExpr, *T): give a reference a Go pointer type
		a := arg(0)
		t, err := u.parseType(x.Raw)
		if err != nil {
			e.fail(x.P, "%v", err)
		}
		return Val{T: e.refOf(a), Typ: t}
	case "mk": // mk(T, v): wrap into interface
		e.fail(x.P, "mk not supported; use box")
	case "box":
		a := arg(0)
		t, err := u.parseType(x.Raw)
		if err != nil {
			e.fail(x.P, "%v", err)
		}
		return Val{T: fc.anyWrap(a.T, t)}
	case "typeid":
		t, err := u.parseType(x.Raw)
		if err != nil {
			e.fail(x.P, "%v", err)
		}
		return Val{T: IntLit(int64(u.typeID(t))), Typ: ti}
	case "typeOf":
		a := arg(0)
		return Val{T: fc.anyTypeID(a.T), Typ: ti}
	case "refOf":
		a := arg(0)
		return Val{T: App(SInt, "a_ref_v", a.T)}
	case "mapTypeId":
		a := arg(0)
		fc.d.Fun("is_map_type", []Sort{SInt}, SBool)
		return Val{T: App(SBool, "is_map_type", a.T), Typ: tb}
	case "rkind": // reflect.Kind of a type id (ground facts for every type known to the run)
		a := arg(0)
		return Val{T: fc.rkindOf(a.T, e.inQuant > 0), Typ: ti}
	case "tKey": // key type id of a map type id
		a := arg(0)
		fc.d.Fun("tid_key", []Sort{SInt}, SInt)
		return Val{T: App(SInt, "tid_key", a.T), Typ: ti}
	case "tElem": // element type id of a map, slice, array or pointer type id
		a := arg(0)
		fc.d.Fun("tid_elem", []Sort{SInt}, SInt)
		return Val{T: App(SInt, "tid_elem", a.T), Typ: ti}
	case "comparableAny":
		a := arg(0)
		return Val{T: fc.comparableAny(a.T), Typ: tb}
	case "implements": // implements(a, T): the dynamic type of a satisfies interface type T (a != nil)
		a := arg(0)
		t, err := u.parseType(x.Raw)
		if err != nil {
			e.fail(x.P, "%v", err)
		}
		if _, ok := t.Underlying().(*types.Interface); !ok {
			e.fail(x.P, "implements: %s is not an interface type", x.Raw)
		}
		return Val{T: fc.implements(a.T, t), Typ: tb}
	case "isref":
		a := arg(0)
		return Val{T: &Term{"((_ is a_ref) " + a.T.S + ")", SBool}, Typ: tb}
	case "smHas", "smGet": // contents of the sync.Map held in a package-level variable
		id, ok := x.Args[0].(*EIdent)
		if !ok {
			e.fail(x.P, "%s: first argument must name a package-level sync.Map", x.Fun)
		}
		if o, ok := u.tpkg.Scope().Lookup(id.Name).(*types.Var); !ok || u.typeName(o.Type()) != "sync.Map" {
			e.fail(x.P, "%s: %s is not a package-level sync.Map", x.Fun, id.Name)
		}
		mt := u.syncMapType()
		ref := fc.syncMapRef(id.Name)
		k := arg(1)
		if x.Fun == "smHas" {
			return Val{T: fc.mapHas(e.heap, mt, ref, k.T), Typ: tb}
		}
		return Val{T: fc.mapLookup(e.heap, mt, ref, k.T), Typ: mt.Elem()}
	case "fnany": // a package function as an interface value (what storing it in an interface gives)
		id, ok := x.Args[0].(*EIdent)
		if !ok {
			e.fail(x.P, "fnany: argument must name a function")
		}
		fo, ok := u.tpkg.Scope().Lookup(id.Name).(*types.Func)
		if !ok {
			e.fail(x.P, "fnany: no function %s", id.Name)
		}
		f := App(SFn, "mk_fn", IntLit(int64(u.funcID(id.Name))), IntLit(0))
		return Val{T: fc.anyWrap(f, fo.Type())}
	case "isfn": // the interface value holds a function
		a := arg(0)
		return Val{T: &Term{"((_ is a_fn) " + a.T.S + ")", SBool}, Typ: tb}
	case "fnOf": // the function value held by an interface value
		a := arg(0)
		return Val{T: App(SFn, "a_fn_v", a.T)}
	case "isnil":
		a := arg(0)
		return Val{T: Eq(a.T, nilOf(a.T.Sort)), Typ: tb}
	case "funcid":
		name := strings.TrimSpace(x.Raw)
		return Val{T: IntLit(int64(u.funcID(name))), Typ: ti}
	case "fn":
		a := arg(0)
		return Val{T: App(SInt, "fn_id", a.T), Typ: ti}
	case "recv":
		a := arg(0)
		v := Val{T: App(SInt, "fn_recv", a.T)}
		if len(x.Args) > 1 {
			e.fail(x.P, "recv takes one argument")
		}
		return v
	case "recvAs":
		e.fail(x.P, "use cast(recv(f), T)")
	case "cast": // cast(refExpr, T): reinterpret a ref with a Go pointer type
		e.fail(x.P, "cast needs raw type: use asref")
	case "fresh":
		a := arg(0)
		return Val{T: Ge(e.refOf(a), e.oldAlloc), Typ: tb}
	case "allocated":
		a := arg(0)
		return Val{T: And(Gt(e.refOf(a), IntLit(0)), Lt(e.refOf(a), e.alloc)), Typ: tb}
	case "mapHas":
		m, k := arg(0), arg(1)
		mt := m.Typ.Underlying().(*types.Map)
		return Val{T: fc.mapHas(e.heap, mt, m.T, k.T), Typ: tb}
	case "min":
		a, b := arg(0), arg(1)
		return Val{T: Ite(Le(a.T, b.T), a.T, b.T), Typ: a.Typ}
	case "max":
		a, b := arg(0), arg(1)
		return Val{T: Ite(Ge(a.T, b.T), a.T, b.T), Typ: a.Typ}
	case "i2f":
		a := arg(0)
		fc.d.Fun("i2f", []Sort{SInt}, SF64)
		return Val{T: App(SF64, "i2f", a.T), Typ: types.Typ[types.Float64]}
	case "f2i": // Go conversion of a float64 to an integer type (truncation toward zero in range)
		a := arg(0)
		fc.d.Fun("f2i", []Sort{SF64}, SInt)
		return Val{T: App(SInt, "f2i", a.T), Typ: ti}
	case "f2f32":
		a := arg(0)
		fc.d.Fun("f64_to_f32", []Sort{SF64}, SF64)
		return Val{T: App(SF64, "f64_to_f32", a.T), Typ: types.Typ[types.Float32]}
	case "utf8enc": // string(rune): the UTF-8 encoding of a code point (ASCII: the byte itself)
		a := arg(0)
		fc.d.Fun("utf8_enc", []Sort{SInt}, SStr)
		r := App(SStr, "utf8_enc", a.T)
		if e.inQuant == 0 {
			fc.addAxiom(Implies(And(Ge(a.T, IntLit(0)), Lt(a.T, IntLit(128))), Eq(r, SeqUnit(a.T))))
			fc.addAxiom(And(Ge(SeqLen(r), IntLit(1)), Le(SeqLen(r), IntLit(4))))
		}
		return Val{T: r, Typ: types.Typ[types.String]}
	case "int2bv":
		a := arg(0)
		if n, ok := isIntLit(a.T); ok {
			return Val{T: BVLit(uint64(n))}
		}
		return Val{T: App(SBV, "(_ int2bv 64)", a.T)}
	}
	if sf, ok := u.specFuncs[x.Fun]; ok {
		return e.applySpec(x.P, sf, x.Args)
	}
	e.fail(x.P, "unknown function %q", x.Fun)
	return Val{}
}

func (e *Env) refOf(v Val) *Term {
	if v.T.Sort == SAny {
		return App(SInt, "a_ref_v", v.T)
	}
	return v.T
}

func (e *Env) applySpec(p Pos, sf *SpecFunc, args []Expr) Val {
	fc := e.fc
	u := fc.u
	if len(args) != len(sf.Params) {
		e.fail(p, "%s expects %d arguments, got %d", sf.Name, len(sf.Params), len(args))
	}
	rs, rt, err := u.specSort(sf.Ret)
	if err != nil {
		e.fail(sf.P, "%v", err)
	}
	var avals []Val
	for i, a := range args {
		v := e.eval(a)
		ps, pt, err := u.specSort(sf.Params[i].Type)
		if err != nil {
			e.fail(sf.P, "%v", err)
		}
		if isNilLit(v) && ps != SInt {
			v = Val{T: nilOf(ps), Typ: pt}
		}
		if v.T.Sort != ps {
			e.fail(p, "%s: argument %d has sort %s, want %s", sf.Name, i+1, v.T.Sort, ps)
		}
		if pt != nil {
			v.Typ = pt
		}
		avals = append(avals, v)
	}
	uninterp := func() Val {
		var as []Sort
		var ts []*Term
		for _, v := range avals {
			as = append(as, v.T.Sort)
			ts = append(ts, v.T)
			fc.declSort(v.T.Sort)
		}
		fc.declSort(rs)
		name := "sf_" + sf.Name
		fc.d.Fun(name, as, rs)
		if len(ts) == 0 {
			return Val{T: &Term{name, rs}, Typ: rt}
		}
		return Val{T: App(rs, name, ts...), Typ: rt}
	}
	if sf.Body == nil {
		return uninterp()
	}
	expand := func() Val {
		n := &Env{fc: fc, heap: e.heap, oldHeap: e.oldHeap, alloc: e.alloc, oldAlloc: e.oldAlloc,
			vars: map[string]Val{}, side: e.side, fuel: e.fuel, inQuant: e.inQuant}
		for i, prm := range sf.Params {
			n.vars[prm.Name] = avals[i]
		}
		r := n.eval(sf.Body)
		if r.T.Sort != rs {
			e.fail(sf.P, "spec %s body has sort %s, declared %s", sf.Name, r.T.Sort, rs)
		}
		if rt != nil {
			r.Typ = rt
		}
		return r
	}
	if !sf.Rec {
		return expand()
	}
	// recursive: uninterpreted application plus a ground unfolding (fuel-limited)
	app := uninterp()
	if e.inQuant > 0 {
		return app
	}
	if e.fuel == nil {
		e.fuel = map[string]int{}
	}
	key := sf.Name
	if e.fuel[key] >= fc.recFuel(sf) {
		return app
	}
	if fc.unfolded[app.T.S] {
		return app
	}
	fc.unfolded[app.T.S] = true
	e.fuel[key]++
	body := expand()
	e.fuel[key]--
	def := Eq(app.T, body.T)
	fc.axioms = append(fc.axioms, def)
	return app
}

func (fc *FuncCtx) recFuel(sf *SpecFunc) int {
	if sf.Fuel > 0 {
		return sf.Fuel
	}
	return 1
}

// ---------- interface values ----------

func (fc *FuncCtx) anyKind(t types.Type) string {
	if a, ok := t.(*types.Alias); ok {
		t = types.Unalias(a)
	}
	switch ut := t.Underlying().(type) {
	case *types.Basic:
		switch {
		case ut.Info()&types.IsBoolean != 0:
			return "bool"
		case ut.Info()&types.IsString != 0:
			return "str"
		case ut.Info()&types.IsInteger != 0:
			return "int"
		case ut.Info()&types.IsFloat != 0:
			return "f64"
		}
	case *types.Pointer, *types.Map:
		return "ref"
	case *types.Signature:
		return "fn"
	}
	return "oth"
}

func isPlain(t types.Type, kind types.BasicKind) bool {
	b, ok := t.(*types.Basic)
	return ok && b.Kind() == kind
}

// anyWrap builds the interface value holding v of static (concrete) type t.
func (fc *FuncCtx) anyWrap(v *Term, t types.Type) *Term {
	u := fc.u
	if _, isIface := t.Underlying().(*types.Interface); isIface {
		return v
	}
	id := IntLit(int64(u.typeID(t)))
	switch fc.anyKind(t) {
	case "bool":
		if isPlain(t, types.Bool) {
			return App(SAny, "a_bool", v)
		}
	case "str":
		if isPlain(t, types.String) {
			return App(SAny, "a_str", v)
		}
	case "int":
		if v.Sort == SBV {
			return App(SAny, "a_int", id, App(SInt, "bv2nat", v))
		}
		return App(SAny, "a_int", id, v)
	case "f64":
		return App(SAny, "a_f64", id, v)
	case "ref":
		// a nil pointer in an interface is a non-nil interface value; keep the ref 0
		return App(SAny, "a_ref", id, v)
	case "fn":
		return App(SAny, "a_fn", id, v)
	}
	return App(SAny, "a_oth", id, fc.box(v))
}

func (fc *FuncCtx) box(v *Term) *Term {
	fc.declSort(v.Sort)
	n := "box_" + sanitize(string(v.Sort))
	un := "unbox_" + sanitize(string(v.Sort))
	fc.d.Fun(n, []Sort{v.Sort}, SInt)
	fc.d.Fun(un, []Sort{SInt}, v.Sort)
	b := App(SInt, n, v)
	ax := Eq(App(v.Sort, un, b), v)
	if !fc.unfolded[ax.S] && !strings.Contains(v.S, "!q") {
		fc.unfolded[ax.S] = true
		fc.axioms = append(fc.axioms, ax)
	}
	return b
}

func (fc *FuncCtx) anyIs(a *Term, t types.Type) *Term {
	u := fc.u
	id := IntLit(int64(u.typeID(t)))
	is := func(c string) *Term { return &Term{"((_ is " + c + ") " + a.S + ")", SBool} }
	switch fc.anyKind(t) {
	case "bool":
		if isPlain(t, types.Bool) {
			return is("a_bool")
		}
	case "str":
		if isPlain(t, types.String) {
			return is("a_str")
		}
	case "int":
		return And(is("a_int"), Eq(App(SInt, "a_int_ty", a), id))
	case "f64":
		return And(is("a_f64"), Eq(App(SInt, "a_f64_ty", a), id))
	case "ref":
		return And(is("a_ref"), Eq(App(SInt, "a_ref_ty", a), id))
	case "fn":
		return And(is("a_fn"), Eq(App(SInt, "a_fn_ty", a), id))
	}
	return And(is("a_oth"), Eq(App(SInt, "a_oth_ty", a), id))
}

func (fc *FuncCtx) anyUnwrap(a *Term, t types.Type) *Term {
	if _, isIface := t.Underlying().(*types.Interface); isIface {
		return a
	}
	s := fc.u.sortOf(t)
	switch fc.anyKind(t) {
	case "bool":
		if isPlain(t, types.Bool) {
			return App(SBool, "a_bool_v", a)
		}
	case "str":
		if isPlain(t, types.String) {
			return App(SStr, "a_str_v", a)
		}
	case "int":
		if s == SBV {
			return App(SBV, "(_ int2bv 64)", App(SInt, "a_int_v", a))
		}
		return App(SInt, "a_int_v", a)
	case "f64":
		return App(SF64, "a_f64_v", a)
	case "ref":
		return App(SInt, "a_ref_v", a)
	case "fn":
		return App(SFn, "a_fn_v", a)
	}
	fc.declSort(s)
	un := "unbox_" + sanitize(string(s))
	bn := "box_" + sanitize(string(s))
	fc.d.Fun(bn, []Sort{s}, SInt)
	fc.d.Fun(un, []Sort{SInt}, s)
	r := App(s, un, App(SInt, "a_oth_v", a))
	// boxing is a bijection on boxed values of this type
	if !strings.Contains(a.S, "!q") {
		fc.addAxiom(Implies(fc.anyIs(a, t), Eq(App(SInt, bn, r), App(SInt, "a_oth_v", a))))
	}
	return r
}

// anyTypeID: dynamic type id of an interface value (0 for nil). bool and string use their
// own constructors.
func (fc *FuncCtx) anyTypeID(a *Term) *Term {
	u := fc.u
	is := func(c string) *Term { return &Term{"((_ is " + c + ") " + a.S + ")", SBool} }
	bid := IntLit(int64(u.typeID(types.Typ[types.Bool])))
	sid := IntLit(int64(u.typeID(types.Typ[types.String])))
	return Ite(is("a_nil"), IntLit(0),
		Ite(is("a_bool"), bid,
			Ite(is("a_str"), sid,
				Ite(is("a_int"), App(SInt, "a_int_ty", a),
					Ite(is("a_f64"), App(SInt, "a_f64_ty", a),
						Ite(is("a_ref"), App(SInt, "a_ref_ty", a),
							Ite(is("a_fn"), App(SInt, "a_fn_ty", a), App(SInt, "a_oth_ty", a))))))))
}


// elemGet / elemPut: read and write elements of slice sequences, unboxing/boxing
// sequence-valued elements.
func (fc *FuncCtx) elemGet(seq, idx *Term, et types.Type) *Term {
	raw := SeqNth(seq, idx)
	if et != nil && fc.u.boxedElem(et) && raw.Sort == SInt {
		s := fc.u.sortOf(et)
		un := "unbox_" + sanitize(string(s))
		fc.d.Fun("box_"+sanitize(string(s)), []Sort{s}, SInt)
		fc.d.Fun(un, []Sort{SInt}, s)
		return App(s, un, raw)
	}
	return raw
}

func (fc *FuncCtx) elemPut(v *Term, et types.Type) *Term {
	if v.Sort.IsSeq() {
		return fc.box(v)
	}
	return v
}

// rkindOf: the reflect.Kind number of a type id, linked to the interface-constructor kind
// (tid_kind) and the map-type flag by ground instances at the use.
func (fc *FuncCtx) rkindOf(t *Term, inQuant bool) *Term {
	fc.d.Fun("tid_rkind", []Sort{SInt}, SInt)
	fc.d.Fun("tid_kind", []Sort{SInt}, SInt)
	fc.d.Fun("is_map_type", []Sort{SInt}, SBool)
	r := App(SInt, "tid_rkind", t)
	if inQuant {
		return r
	}
	k := App(SInt, "tid_kind", t)
	isMap := App(SBool, "is_map_type", t)
	in := func(x *Term, vals ...int64) *Term {
		var ors []*Term
		for _, v := range vals {
			ors = append(ors, Eq(x, IntLit(v)))
		}
		return Or(ors...)
	}
	fc.addAxiom(And(
		Ge(r, IntLit(0)), Le(r, IntLit(26)),
		Eq(Eq(t, IntLit(0)), Eq(r, IntLit(0))),
		Eq(isMap, Eq(r, IntLit(21))),
		Implies(Eq(k, IntLit(1)), Eq(r, IntLit(1))),
		Implies(Eq(k, IntLit(2)), Eq(r, IntLit(24))),
		Eq(Eq(k, IntLit(3)), And(Ge(r, IntLit(2)), Le(r, IntLit(12)))),
		Eq(Eq(k, IntLit(4)), in(r, 13, 14)),
		Eq(Eq(k, IntLit(5)), in(r, 21, 22)),
		Eq(Eq(k, IntLit(6)), Eq(r, IntLit(19))),
		Implies(Eq(k, IntLit(7)), in(r, 1, 15, 16, 17, 18, 20, 23, 24, 25, 26)),
		Implies(Not(Eq(t, IntLit(0))), And(Ge(k, IntLit(1)), Le(k, IntLit(7))))))
	return r
}

// reflectKindOf: reflect.Kind number of a Go type.
func reflectKindOf(t types.Type) int {
	if a, ok := t.(*types.Alias); ok {
		t = types.Unalias(a)
	}
	switch ut := t.Underlying().(type) {
	case *types.Basic:
		switch ut.Kind() {
		case types.Bool:
			return 1
		case types.Int:
			return 2
		case types.Int8:
			return 3
		case types.Int16:
			return 4
		case types.Int32:
			return 5
		case types.Int64:
			return 6
		case types.Uint:
			return 7
		case types.Uint8:
			return 8
		case types.Uint16:
			return 9
		case types.Uint32:
			return 10
		case types.Uint64:
			return 11
		case types.Uintptr:
			return 12
		case types.Float32:
			return 13
		case types.Float64:
			return 14
		case types.Complex64:
			return 15
		case types.Complex128:
			return 16
		case types.String:
			return 24
		case types.UnsafePointer:
			return 26
		}
	case *types.Array:
		return 17
	case *types.Chan:
		return 18
	case *types.Signature:
		return 19
	case *types.Interface:
		return 20
	case *types.Map:
		return 21
	case *types.Pointer:
		return 22
	case *types.Slice:
		return 23
	case *types.Struct:
		return 25
	}
	return 0
}
