package main

// Symbolic execution of go/ssa (naive form) along acyclic paths between cut points.

import (
	"fmt"
	"go/constant"
	"go/token"
	"go/types"
	"sort"
	"strings"

	"golang.org/x/tools/go/ssa"
)

type Obligation struct {
	Name    string
	Func    string
	Kind    string
	Tags    []string
	Clause  string
	Goal    *Term
	PC      []*Term
	Path    string
	Site    string
	fc      *FuncCtx
	Result  *SolveResult
	MustSat bool // cover obligation: expected satisfiable
	ShortLimit bool // listed as a known finding: expected to fail, solved with a short limit
	Obs     []namedTerm // what a replay on the real code can observe at this point (results, scanner state)
	// OwnTags: the clause named properties itself (otherwise Tags are the function's)
	OwnTags bool
}

type FuncCtx struct {
	implFuns     map[string]*types.Interface
	globalAxioms []*Term // assumed axioms from spec files, included only where their symbols occur
	u        *Universe
	d        *Decls
	fn       *ssa.Function
	name     string
	contract *Contract
	axioms   []*Term
	unfolded map[string]bool
	qn       int
	obs      []*Obligation
	paths    int
	errs     []string
	tags     []string

	entryHeap  *Heap
	entryAlloc *Term
	params     map[string]Val
	assignSet  []assignLoc
	assignAll  bool
	siteCount  map[string]int
	siteName   map[ssa.Instruction]map[string]string
	maxPaths   int
	comparable map[int]bool
	entryPCLen int
	cutAt      map[ssa.Instruction]*CutSpec
	cutDone    map[*CutSpec]bool
	loopDone   map[*LoopInfo]bool
	replay     *replayInfo
	curObs     []namedTerm
}

type assignLoc struct {
	key    string // heap key; "" when whole map
	ref    *Term  // nil => every object (whole field)
	text   string
	sort   Sort
	typ    types.Type
	isMap  bool
	mapTyp *types.Map
}

type LocalAddr struct {
	alloc *ssa.Alloc
	path  string
	typ   types.Type
}

type HeapAddr struct {
	ref  *Term
	key  string
	sort Sort
	typ  types.Type
}

type ArrCell struct {
	elems []Val
	et    types.Type
}

type IndexAddr struct {
	seq  Val
	idx  *Term
	cell *ArrCell
	ci   int
}

type ClosureInfo struct {
	fn       *ssa.Function
	bindings []SVal
}

type IterInfo struct {
	m     SVal
	mt    *types.Map
	isStr bool
	// visited: the keys the iteration has produced so far (Array K Bool); every Next yields a
	// key of the map that is not yet visited, and reports exhaustion only when all are
	visited *Term
}

// SVal is a runtime value of the symbolic executor: a term plus address-like extras.
type SVal struct {
	Val
	Loc     *LocalAddr
	HAddr   *HeapAddr
	IAddr   *IndexAddr
	Arr     *ArrCell // pointer to a local array cell
	Closure *ClosureInfo
	Iter    *IterInfo
}

type Frame struct {
	fn      *ssa.Function
	vals    map[ssa.Value]SVal
	locals  map[string]SVal
	block   *ssa.BasicBlock
	prev    *ssa.BasicBlock
	idx     int
	call    ssa.CallInstruction // call instruction in the parent frame
	defers  []deferred
	variant map[*ssa.BasicBlock][]*Term
	entryL  map[string]SVal // locals at loop entry (for old() in invariants) - unused
	contract *Contract
	isDefer bool
}

type deferred struct {
	call *ssa.Defer
	fn   SVal
	args []SVal
}

type touched struct {
	typ string
	ref *Term
}

type State struct {
	escapeSite ssa.Instruction
	touched   []touched
	frames    []*Frame
	pc        []*Term
	heap      *Heap
	allocBase *Term
	allocOff  int64
	path      []string
	panicking bool
	recovered bool
}

func (st *State) alloc() *Term { return Add(st.allocBase, IntLit(st.allocOff)) }

func (st *State) clone() *State {
	n := &State{escapeSite: st.escapeSite, touched: append([]touched(nil), st.touched...), pc: append([]*Term(nil), st.pc...), heap: st.heap, allocBase: st.allocBase, allocOff: st.allocOff,
		path: append([]string(nil), st.path...), panicking: st.panicking, recovered: st.recovered}
	for _, f := range st.frames {
		nf := *f
		nf.vals = make(map[ssa.Value]SVal, len(f.vals))
		for k, v := range f.vals {
			if v.Iter != nil {
				it := *v.Iter
				v.Iter = &it
			}
			nf.vals[k] = v
		}
		nf.locals = make(map[string]SVal, len(f.locals))
		for k, v := range f.locals {
			if v.Arr != nil {
				c := *v.Arr
				c.elems = append([]Val(nil), v.Arr.elems...)
				v.Arr = &c
			}
			nf.locals[k] = v
		}
		nf.variant = map[*ssa.BasicBlock][]*Term{}
		for k, v := range f.variant {
			nf.variant[k] = v
		}
		nf.defers = append([]deferred(nil), f.defers...)
		n.frames = append(n.frames, &nf)
	}
	return n
}

func (st *State) top() *Frame { return st.frames[len(st.frames)-1] }

func (st *State) assume(t *Term) {
	if t.S == "true" {
		return
	}
	// drop exact duplicates among recent assumptions
	lo := len(st.pc) - 64
	if lo < 0 {
		lo = 0
	}
	for i := len(st.pc) - 1; i >= lo; i-- {
		if st.pc[i].S == t.S {
			return
		}
	}
	st.pc = append(st.pc, t)
}

type Exec struct {
	fc *FuncCtx
	u  *Universe
}

type engineError struct{ msg string }

func (ex *Exec) unsupported(st *State, f string, a ...interface{}) {
	panic(engineError{fmt.Sprintf(f, a...)})
}

// ---------- obligations ----------

func (fc *FuncCtx) emit(st *State, kind, site, clause string, tags []string, goal *Term) {
	if goal.S != "true" {
		// discharged syntactically when the goal (or each of its conjuncts) is literally assumed
		for _, p := range st.pc {
			if p.S == goal.S {
				goal = TTrue
				break
			}
		}
	}
	name := fc.name + "#" + kind
	if site != "" {
		name += "@" + site
	}
	own := false
	for _, t := range tags {
		if strings.HasPrefix(t, "C") {
			own = true
		}
	}
	ob := &Obligation{Name: name, Func: fc.name, Kind: kind, Tags: pickTags(tags, fc.tags), Clause: clause, OwnTags: own,
		Goal: goal, PC: append([]*Term(nil), st.pc...), Path: strings.Join(st.path, " "), Site: site, fc: fc, Obs: fc.curObs}
	fc.obs = append(fc.obs, ob)
}

// pickTags: a clause's own property tags win; engine-generated kinds and untagged clauses
// inherit the function-level tags.
func pickTags(clause, fn []string) []string {
	var real []string
	for _, t := range clause {
		if strings.HasPrefix(t, "C") {
			real = append(real, t)
		}
	}
	if len(real) > 0 {
		return mergeTags(clause, nil)
	}
	return mergeTags(clause, fn)
}

func mergeTags(a, b []string) []string {
	seen := map[string]bool{}
	var out []string
	for _, x := range append(append([]string{}, a...), b...) {
		if !seen[x] {
			seen[x] = true
			out = append(out, x)
		}
	}
	sort.Strings(out)
	return out
}

// siteOrdinal gives a stable ordinal for (instruction, kind) within the function being
// verified: k-th site of that kind in block/instruction order of its own function.
func (fc *FuncCtx) siteFor(in ssa.Instruction, kind string) string {
	if fc.siteName[in] == nil {
		fc.siteName[in] = map[string]string{}
	}
	if s, ok := fc.siteName[in][kind]; ok {
		return s
	}
	fn := in.Parent()
	// count instructions of fn in order that could have this kind: approximate by
	// numbering requests per (fn, kind) in instruction order lazily: compute index of in
	n := 0
	found := false
	for _, b := range fn.Blocks {
		for _, i2 := range b.Instrs {
			if i2 == in {
				found = true
				break
			}
			if sameSiteKind(i2, in) {
				n++
			}
		}
		if found {
			break
		}
	}
	prefix := ""
	if fn != fc.fn {
		prefix = fc.u.displayName(fn) + ":"
	}
	s := fmt.Sprintf("%s%s.%d", prefix, kind, n+1)
	fc.siteName[in][kind] = s
	return s
}

func sameSiteKind(a, b ssa.Instruction) bool {
	return fmt.Sprintf("%T", a) == fmt.Sprintf("%T", b)
}

// ---------- driving a function ----------

func (u *Universe) newFuncCtx(fn *ssa.Function, c *Contract) *FuncCtx {
	fc := &FuncCtx{u: u, d: NewDecls(), fn: fn, name: u.displayName(fn), contract: c, unfolded: map[string]bool{},
		params: map[string]Val{}, siteCount: map[string]int{}, siteName: map[ssa.Instruction]map[string]string{},
		maxPaths: 20000, comparable: map[int]bool{}}
	if c != nil {
		fc.tags = c.Tags
	}
	return fc
}

func (fc *FuncCtx) freshOf(name string, t types.Type) *Term {
	s := fc.u.sortOf(t)
	fc.declSort(s)
	return fc.d.Fresh(name, s)
}

// verifyFunction generates all obligations for fn against contract c.
func (u *Universe) verifyFunction(fn *ssa.Function, c *Contract) (fc *FuncCtx) {
	fc = u.newFuncCtx(fn, c)
	termDefs = map[string]*Term{}
	defer func() {
		if r := recover(); r != nil {
			switch e := r.(type) {
			case engineError:
				fc.errs = append(fc.errs, e.msg)
			case error:
				fc.errs = append(fc.errs, e.Error())
			default:
				panic(r)
			}
		}
	}()
	ex := &Exec{fc: fc, u: u}
	st := &State{heap: baseHeap(), allocBase: fc.d.Const("alloc0", SInt)}
	for _, a := range u.axioms {
		aenv := &Env{fc: fc, heap: st.heap, oldHeap: st.heap, alloc: st.allocBase, oldAlloc: st.allocBase, vars: map[string]Val{}}
		fc.globalAxioms = append(fc.globalAxioms, aenv.evalBool(a.E))
	}
	// facts established by init functions (assumed everywhere else; see checkInitInvs)
	if !isInitFunc(fn) {
		for _, ii := range u.initInvs {
			aenv := &Env{fc: fc, heap: st.heap, oldHeap: st.heap, alloc: st.allocBase, oldAlloc: st.allocBase, vars: map[string]Val{}}
			fc.globalAxioms = append(fc.globalAxioms, aenv.evalBool(ii.Clause.E))
		}
	}
	st.assume(Gt(st.allocBase, IntLit(0)))
	fc.entryHeap = st.heap
	fc.entryAlloc = st.allocBase
	fr := &Frame{fn: fn, vals: map[ssa.Value]SVal{}, locals: map[string]SVal{}, variant: map[*ssa.BasicBlock][]*Term{}, contract: c}
	pnames := u.paramNames(fn)
	for i, p := range fn.Params {
		v := fc.freshOf(p.Name(), p.Type())
		fr.vals[p] = SVal{Val: Val{T: v, Typ: p.Type()}}
		fc.params[pnames[i]] = Val{T: v, Typ: p.Type()}
		st.assume(fc.wellFormed(v, p.Type(), st.allocBase))
		st.assume(fc.typeInvariant(v, p.Type()))
		st.assume(fc.objInvFact(st.heap, st.allocBase, v, p.Type()))
		fc.d.old[v.S] = true
	}
	for _, fv := range fn.FreeVars {
		v := fc.freshOf(fv.Name(), fv.Type())
		fr.vals[fv] = SVal{Val: Val{T: v, Typ: fv.Type()}}
		fc.params[fv.Name()] = Val{T: v, Typ: fv.Type()}
		fc.d.old[v.S] = true
		st.assume(fc.wellFormed(v, fv.Type(), st.allocBase))
	}
	for _, p := range fn.Params { // current names too (replay planning), unless taken
		if _, ok := fc.params[p.Name()]; !ok {
			fc.params[p.Name()] = fr.vals[p].Val
		}
	}
	st.frames = []*Frame{fr}
	// requires
	env := ex.envFor(st, nil)
	for _, r := range c.Requires {
		t := env.evalBool(r.E)
		st.assume(t)
	}
	// package-level sync.Map variables are empty when the init function that fills them starts
	// (zero value; the init-invariant sweep shows no other function stores into them)
	if isInitFunc(fn) {
		for _, n := range u.tpkg.Scope().Names() {
			if o, ok := u.tpkg.Scope().Lookup(n).(*types.Var); ok && u.typeName(o.Type()) == "sync.Map" {
				mt := u.syncMapType()
				_, dk, _, ds := fc.mapKeys(mt)
				st.assume(Eq(st.heap.read(fc.d, dk, ds, fc.syncMapRef(n)), &Term{fmt.Sprintf("((as const %s) false)", ds), ds}))
			}
		}
	}
	fc.planReplay(st)
	// dispatch clauses on parameters are implicit preconditions
	for _, pn := range sortedKeys(c.Dispatch) {
		if pv, ok := fc.params[pn]; ok && pv.T.Sort == SFn {
			st.assume(u.dispatchCond(pv.T, c.Dispatch[pn]))
		}
	}
	// assigns
	fc.assignAll = c.AssignAll
	for _, dsg := range c.Assigns {
		fc.assignSet = append(fc.assignSet, ex.evalDesig(env, dsg)...)
	}
	if len(fn.Blocks) == 0 {
		fc.errs = append(fc.errs, "function has no body")
		return fc
	}
	fc.entryPCLen = len(st.pc)
	fc.cutAt = map[ssa.Instruction]*CutSpec{}
	fc.cutDone = map[*CutSpec]bool{}
	fc.loopDone = map[*LoopInfo]bool{}
	for _, cs := range c.Cuts {
		n := 0
		var at ssa.Instruction
		for _, b := range fn.Blocks {
			for _, in := range b.Instrs {
				ci, ok := in.(ssa.CallInstruction)
				if !ok {
					continue
				}
				name := ""
				if sc := ci.Common().StaticCallee(); sc != nil {
					name = u.displayName(sc)
				} else if ci.Common().IsInvoke() {
					name = "(" + u.typeName(ci.Common().Value.Type()) + ")." + ci.Common().Method.Name()
				}
				if name == cs.Callee || genericName(name) == cs.Callee {
					n++
					if n == cs.Nth && at == nil {
						at = in
					}
				}
			}
		}
		if at == nil {
			fc.errs = append(fc.errs, fmt.Sprintf("cut %d: no call of %s#%d in the function body (the contract no longer binds)", cs.Ordinal, cs.Callee, cs.Nth))
			return fc
		}
		// move the cut to the start of the statement: back over the side-effect-free instructions
		// (loads, address computations, conversions) that compute the call's operands
		blk := at.Block()
		idx := 0
		for i, in := range blk.Instrs {
			if in == at {
				idx = i
			}
		}
		for idx > 0 {
			switch blk.Instrs[idx-1].(type) {
			case *ssa.UnOp, *ssa.FieldAddr, *ssa.IndexAddr, *ssa.Field, *ssa.Index, *ssa.Extract, *ssa.MakeInterface,
				*ssa.Convert, *ssa.ChangeType, *ssa.ChangeInterface, *ssa.Slice, *ssa.BinOp, *ssa.DebugRef, *ssa.Lookup:
				idx--
				continue
			}
			break
		}
		fc.cutAt[blk.Instrs[idx]] = cs
	}
	fr.block = fn.Blocks[0]
	ex.run(st)
	return fc
}

func (u *Universe) dispatchCond(f *Term, cands []string) *Term {
	var ors []*Term
	for _, cn := range cands {
		ors = append(ors, Eq(App(SInt, "fn_id", f), IntLit(int64(u.funcID(cn)))))
	}
	return Or(ors...)
}

// typeInvariant: range facts of a Go type (bytes in strings are 0..255 is left to axioms on use).
func (fc *FuncCtx) typeInvariant(v *Term, t types.Type) *Term {
	if t == nil {
		return TTrue
	}
	if at, ok := t.Underlying().(*types.Array); ok && v.Sort.IsSeq() {
		return Eq(SeqLen(v), IntLit(at.Len()))
	}
	if b, ok := t.Underlying().(*types.Basic); ok && v.Sort == SInt {
		switch b.Kind() {
		case types.Uint8:
			return And(Ge(v, IntLit(0)), Le(v, IntLit(255)))
		case types.Int32:
			return And(Ge(v, IntLit(-2147483648)), Le(v, IntLit(2147483647)))
		case types.Uint, types.Uint64, types.Uint32, types.Uint16, types.Uintptr:
			return Ge(v, IntLit(0))
		}
	}
	return TTrue
}

// envFor builds the spec environment at the current point of the root frame.
func (ex *Exec) envFor(st *State, extra map[string]Val) *Env {
	fc := ex.fc
	env := &Env{fc: fc, heap: st.heap, oldHeap: fc.entryHeap, alloc: st.alloc(), oldAlloc: fc.entryAlloc,
		vars: map[string]Val{}, side: &st.pc}
	for k, v := range fc.params {
		env.vars[k] = v
	}
	for k, v := range extra {
		env.vars[k] = v
	}
	return env
}

// localsEnv adds the current values of named local cells of the root frame (for invariants).
func (ex *Exec) localsEnv(st *State, fr *Frame, env *Env) {
	env.oldVars = map[string]Val{}
	for k, v := range ex.fc.params {
		env.oldVars[k] = v
	}
	// the visited set of the map iteration of loop k: visited@Lk
	for _, li := range ex.u.loopsOf(fr.fn) {
		for _, it := range ex.loopIters(fr, li) {
			env.vars[fmt.Sprintf("visited@L%d", li.Ordinal)] = Val{T: it.visited}
		}
	}
	// names: Alloc.Comment; duplicates get @k suffix in declaration order
	count := map[string]int{}
	allocs := namedAllocs(fr.fn)
	lnames := ex.u.localNames(fr.fn, allocs)
	for ai, a := range allocs {
		name := lnames[ai]
		count[name]++
		var v SVal
		var ok bool
		if a.Heap {
			sv, has := fr.vals[a]
			if !has {
				continue
			}
			et := a.Type().Underlying().(*types.Pointer).Elem()
			if _, isStruct := et.Underlying().(*types.Struct); isStruct {
				v, ok = SVal{Val: Val{T: sv.T, Typ: a.Type()}}, true
			} else if _, isArr := et.Underlying().(*types.Array); isArr {
				continue
			} else {
				s := ex.u.sortOf(et)
				ex.fc.declSort(s)
				v, ok = SVal{Val: Val{T: st.heap.read(ex.fc.d, "cell:"+ex.u.typeName(et), s, sv.T), Typ: et}}, true
			}
		} else {
			v, ok = fr.locals[localKey(a, "")]
		}
		if !ok || v.T == nil {
			continue
		}
		if count[name] == 1 {
			env.vars[name] = v.Val
		}
		env.vars[fmt.Sprintf("%s@%d", name, count[name])] = v.Val
		for _, li := range ex.u.loopsOf(fr.fn) {
			for _, sa := range li.Stored {
				if sa == a {
					env.vars[fmt.Sprintf("%s@L%d", name, li.Ordinal)] = v.Val
				}
			}
		}
	}
}

// loopIters: the map iterators advanced inside the loop.
func (ex *Exec) loopIters(fr *Frame, li *LoopInfo) []*IterInfo {
	var out []*IterInfo
	var blocks []*ssa.BasicBlock
	for b := range li.Body {
		blocks = append(blocks, b)
	}
	sort.Slice(blocks, func(i, j int) bool { return blocks[i].Index < blocks[j].Index })
	for _, b := range blocks {
		for _, in := range b.Instrs {
			if nx, ok := in.(*ssa.Next); ok {
				if sv, ok := fr.vals[nx.Iter]; ok && sv.Iter != nil && sv.Iter.visited != nil {
					out = append(out, sv.Iter)
				}
			}
		}
	}
	return out
}

func localKey(a *ssa.Alloc, path string) string {
	return fmt.Sprintf("%p%s", a, path)
}

// evalDesig turns an assigns designator into heap locations (evaluated in env's state).
func (ex *Exec) evalDesig(env *Env, d *Desig) []assignLoc {
	fc := ex.fc
	u := ex.u
	switch e := d.E.(type) {
	case *EField:
		base := env.eval(e.X)
		if base.Typ == nil {
			env.fail(d.P, "assigns: untyped base in %s", d.Text)
		}
		owner := base.Typ
		if pt, ok := owner.Underlying().(*types.Pointer); ok {
			owner = pt.Elem()
		}
		ownerName := u.typeName(owner)
		if g, ok := u.ghosts[ownerName+"."+e.Name]; ok {
			s, t, err := u.specSort(g.Type)
			if err != nil {
				env.fail(d.P, "%v", err)
			}
			return []assignLoc{{key: "ghost:" + ownerName + "." + e.Name, ref: base.T, text: d.Text, sort: s, typ: t}}
		}
		obj, index, _ := types.LookupFieldOrMethod(base.Typ, true, u.tpkg, e.Name)
		fv, ok := obj.(*types.Var)
		if !ok {
			env.fail(d.P, "assigns: no field %s", e.Name)
		}
		cur := base
		for k, i := range index {
			st, s := derefStruct(cur.Typ)
			f := s.Field(i)
			if k == len(index)-1 {
				return []assignLoc{{key: u.fieldKey(st, f), ref: cur.T, text: d.Text, sort: u.sortOf(f.Type()), typ: f.Type()}}
			}
			if _, isStruct := f.Type().Underlying().(*types.Struct); isStruct {
				cur = Val{T: cur.T, Typ: types.NewPointer(f.Type())}
			} else {
				cur = Val{T: fc.readField(env.heap, env.alloc, st, f, cur.T, env), Typ: f.Type()}
			}
		}
		_ = fv
	case *ECall:
		if as, ok := u.asets[e.Fun]; ok {
			n := env.clone()
			if len(e.Args) != len(as.Params) {
				env.fail(d.P, "frame %s: wrong number of arguments", as.Name)
			}
			for i, prm := range as.Params {
				v := env.eval(e.Args[i])
				if _, t, err := u.specSort(prm.Type); err == nil && t != nil {
					v.Typ = t
				}
				n.vars[prm.Name] = v
			}
			var out []assignLoc
			for _, dd := range as.Desigs {
				out = append(out, ex.evalDesig(n, dd)...)
			}
			return out
		}
		switch e.Fun {
		case "all":
			m := env.eval(e.Args[0])
			mt, ok := m.Typ.Underlying().(*types.Map)
			if !ok {
				env.fail(d.P, "all(): not a map")
			}
			return []assignLoc{{ref: m.T, text: d.Text, isMap: true, mapTyp: mt}}
		case "field":
			// field(Type.name): the field of every object
			raw := ""
			if id, ok := e.Args[0].(*EField); ok {
				if b, ok := id.X.(*EIdent); ok {
					raw = b.Name + "." + id.Name
					t, err := u.parseType(b.Name)
					if err != nil {
						env.fail(d.P, "%v", err)
					}
					st, s := derefStruct(t)
					for i := 0; i < s.NumFields(); i++ {
						if s.Field(i).Name() == id.Name {
							return []assignLoc{{key: u.fieldKey(st, s.Field(i)), ref: nil, text: d.Text, sort: u.sortOf(s.Field(i).Type()), typ: s.Field(i).Type()}}
						}
					}
				}
			}
			env.fail(d.P, "field(): bad argument %s", raw)
		case "global":
			if id, ok := e.Args[0].(*EIdent); ok {
				if g, ok := u.ghostGlobals[id.Name]; ok {
					gs, gt, err := u.specSort(g.Type)
					if err != nil {
						env.fail(d.P, "%v", err)
					}
					return []assignLoc{{key: "global:$" + id.Name, ref: IntLit(0), text: d.Text, sort: gs, typ: gt}}
				}
				if obj, ok := u.tpkg.Scope().Lookup(id.Name).(*types.Var); ok {
					return []assignLoc{{key: "global:" + id.Name, ref: IntLit(0), text: d.Text, sort: u.sortOf(obj.Type()), typ: obj.Type()}}
				}
			}
			env.fail(d.P, "global(): unknown variable")
		case "fields":
			base := env.eval(e.Args[0])
			st, s := derefStruct(base.Typ)
			var out []assignLoc
			var walk func(st types.Type, s *types.Struct)
			walk = func(st types.Type, s *types.Struct) {
				for i := 0; i < s.NumFields(); i++ {
					f := s.Field(i)
					if fs, ok := f.Type().Underlying().(*types.Struct); ok {
						walk(f.Type(), fs)
						continue
					}
					out = append(out, assignLoc{key: u.fieldKey(st, f), ref: base.T, text: d.Text, sort: u.sortOf(f.Type()), typ: f.Type()})
				}
			}
			walk(st, s)
			return out
		}
	}
	env.fail(d.P, "unsupported assigns designator %s", d.Text)
	return nil
}

// ---------- main loop ----------

func (ex *Exec) run(st *State) {
	fc := ex.fc
	for {
		fr := st.top()
		if fr.idx == 0 && len(st.frames) == 1 || fr.idx == 0 {
			// block entry: loop header handling (root and inlined frames alike)
			if stop := ex.enterBlock(st, fr); stop {
				return
			}
		}
		if fr.idx >= len(fr.block.Instrs) {
			ex.unsupported(st, "fell off block")
		}
		in := fr.block.Instrs[fr.idx]
		if len(st.frames) == 1 && !st.panicking {
			if cs := fc.cutAt[in]; cs != nil {
				if stop := ex.atCut(st, fr, cs); stop {
					return
				}
			}
		}
		fr.idx++
		switch in := in.(type) {
		case *ssa.If:
			c := ex.val(st, in.Cond).T
			tb, fb := fr.block.Succs[0], fr.block.Succs[1]
			if c.S == "true" {
				ex.jump(st, fr, tb)
				continue
			}
			if c.S == "false" {
				ex.jump(st, fr, fb)
				continue
			}
			fc.paths++
			if fc.paths > fc.maxPaths {
				ex.unsupported(st, "path budget exceeded (%d)", fc.maxPaths)
			}
			st2 := st.clone()
			st2.assume(Not(c))
			st2.path = append(st2.path, fmt.Sprintf("b%d:F", fr.block.Index))
			fr2 := st2.top()
			ex.jump(st2, fr2, fb)
			st.assume(c)
			st.path = append(st.path, fmt.Sprintf("b%d:T", fr.block.Index))
			ex.jump(st, fr, tb)
			ex.run(st)
			ex.run(st2)
			return
		case *ssa.Jump:
			ex.jump(st, fr, fr.block.Succs[0])
		case *ssa.Return:
			if done := ex.doReturn(st, fr, in); done {
				return
			}
		case *ssa.Panic:
			ex.explicitPanic(st, in)
			if done := ex.unwind(st); done {
				return
			}
		default:
			// (a deferred function runs while the state is already panicking: only a panic
			// raised by this very step starts an unwinding)
			was := st.panicking
			if forked := ex.step(st, fr, in); forked {
				return
			}
			if st.panicking && !was {
				if done := ex.unwind(st); done {
					return
				}
			}
		}
	}
}

func (ex *Exec) jump(st *State, fr *Frame, to *ssa.BasicBlock) {
	fr.prev = fr.block
	fr.block = to
	fr.idx = 0
}

// enterBlock handles loop headers. Returns true if the path ends here.
func (ex *Exec) enterBlock(st *State, fr *Frame) bool {
	fc := ex.fc
	var li *LoopInfo
	for _, l := range ex.u.loopsOf(fr.fn) {
		if l.Header == fr.block {
			li = l
		}
	}
	if li == nil {
		return false
	}
	if len(st.frames) > 1 && !fr.isDefer {
		ex.unsupported(st, "loop in inlined function %s (needs a contract)", ex.u.displayName(fr.fn))
	}
	var ls *LoopSpec
	if fr.contract != nil {
		ls = fr.contract.Loops[li.Ordinal]
	}
	if ls == nil {
		ex.unsupported(st, "loop %d of %s has no invariant", li.Ordinal, ex.u.displayName(fr.fn))
	}
	isBack := fr.prev != nil && li.Header.Dominates(fr.prev) && li.Body[fr.prev]
	evalInv := func() []*Term {
		env := ex.envFor(st, nil)
		ex.localsEnv(st, fr, env)
		var ts []*Term
		for _, inv := range ls.Invariants {
			ts = append(ts, env.evalBool(inv.E))
		}
		return ts
	}
	evalVariant := func() []*Term {
		env := ex.envFor(st, nil)
		ex.localsEnv(st, fr, env)
		var ts []*Term
		for _, d := range ls.Decreases {
			ts = append(ts, env.eval(d).T)
		}
		return ts
	}
	site := fmt.Sprintf("loop%d", li.Ordinal)
	if isBack {
		for i, t := range evalInv() {
			fc.emit(st, fmt.Sprintf("inv.step.%d", i+1), site, ls.Invariants[i].Text, ls.Invariants[i].Tags, t)
		}
		v0 := fr.variant[li.Header]
		v1 := evalVariant()
		if len(ls.Decreases) > 0 {
			fc.emit(st, "dec", site, "variant decreases and is bounded below", []string{"TERM"}, lexLess(v1, v0))
		}
		return true
	}
	// entry
	for i, t := range evalInv() {
		fc.emit(st, fmt.Sprintf("inv.init.%d", i+1), site, ls.Invariants[i].Text, ls.Invariants[i].Tags, t)
	}
	if ls.Once {
		if fc.loopDone[li] {
			return true
		}
		fc.loopDone[li] = true
		ex.forgetPath(st, fr, site)
		for _, t := range evalInv() {
			st.assume(t)
		}
		fr.variant[li.Header] = evalVariant()
		return false
	}
	// havoc loop targets
	for _, a := range li.Stored {
		for k, v := range fr.locals {
			if strings.HasPrefix(k, localKey(a, "")) {
				if v.Arr != nil {
					continue
				}
				if v.T == nil {
					continue
				}
				nv := fc.d.Fresh(a.Comment, v.T.Sort)
				fr.locals[k] = SVal{Val: Val{T: nv, Typ: v.Typ}}
				st.assume(fc.wellFormed(nv, v.Typ, st.alloc()))
				st.assume(fc.typeInvariant(nv, v.Typ))
			}
		}
	}
	lh := ex.havocHeap(st, fmt.Sprintf("loop%d", li.Ordinal), fc.assignSet, fc.assignAll, true)
	lh.freshFrom = fc.entryAlloc
	for _, it := range ex.loopIters(fr, li) {
		it.visited = fc.d.Fresh("visited", it.visited.Sort)
	}
	for _, t := range evalInv() {
		st.assume(t)
	}
	fr.variant[li.Header] = evalVariant()
	return false
}

// atCut: an intermediate assertion. Returns true when the path ends here (a path has
// already continued from this cut).
func (ex *Exec) atCut(st *State, fr *Frame, cs *CutSpec) bool {
	fc := ex.fc
	evalInv := func() []*Term {
		env := ex.envFor(st, nil)
		ex.localsEnv(st, fr, env)
		var ts []*Term
		for _, inv := range cs.Invariants {
			ts = append(ts, env.evalBool(inv.E))
		}
		return ts
	}
	site := fmt.Sprintf("cut%d", cs.Ordinal)
	for i, t := range evalInv() {
		fc.emit(st, fmt.Sprintf("cut.%d", i+1), site, cs.Invariants[i].Text, cs.Invariants[i].Tags, t)
	}
	if fc.cutDone[cs] {
		return true
	}
	fc.cutDone[cs] = true
	ex.forgetPath(st, fr, site)
	for _, t := range evalInv() {
		st.assume(t)
	}
	return false
}

// forgetPath: keep what is known about the entry state, havoc every local that is assigned
// after entry, and the heap (assigns clause plus the objects the function itself allocated).
func (ex *Exec) forgetPath(st *State, fr *Frame, site string) {
	fc := ex.fc
	st.pc = append([]*Term(nil), st.pc[:fc.entryPCLen]...)
	st.path = append(st.path, site)
	// locals that only ever receive a parameter (the entry copies) keep their value
	stores := map[*ssa.Alloc]int{}
	paramOnly := map[*ssa.Alloc]bool{}
	for _, b := range fr.fn.Blocks {
		for _, in := range b.Instrs {
			if s, ok := in.(*ssa.Store); ok {
				if a := rootAlloc(s.Addr); a != nil {
					stores[a]++
					if _, isParam := s.Val.(*ssa.Parameter); isParam && s.Addr == ssa.Value(a) {
						paramOnly[a] = true
					} else {
						paramOnly[a] = false
					}
				}
			}
		}
	}
	// SSA registers are immutable and keep their terms (with the path forgotten they denote
	// arbitrary values), except phi registers: their term depends on the path taken, so the
	// first arriving path's choice must not be kept
	for v, sv := range fr.vals {
		if _, isPhi := v.(*ssa.Phi); isPhi && sv.T != nil {
			fr.vals[v] = SVal{Val: Val{T: fc.d.Fresh("cutphi", sv.T.Sort), Typ: sv.Typ}}
		}
	}
	keep := map[string]bool{}
	for a, n := range stores {
		if n == 1 && paramOnly[a] {
			keep[localKey(a, "")] = true
		}
	}
	for k, v := range fr.locals {
		if v.Arr != nil || v.T == nil || keep[k] {
			continue
		}
		nv := fc.d.Fresh("cutv", v.T.Sort)
		fr.locals[k] = SVal{Val: Val{T: nv, Typ: v.Typ}}
	}
	lh := ex.havocHeap(st, site, fc.assignSet, fc.assignAll, true)
	lh.freshFrom = fc.entryAlloc
	st.assume(Ge(st.alloc(), fc.entryAlloc))
	for k, v := range fr.locals {
		if v.Arr != nil || v.T == nil || keep[k] {
			continue
		}
		st.assume(fc.wellFormed(v.T, v.Typ, st.alloc()))
		st.assume(fc.typeInvariant(v.T, v.Typ))
	}
}

// lexLess: a < b lexicographically with b's components bounded below by 0.
func lexLess(a, b []*Term) *Term {
	if len(a) == 0 || len(b) == 0 || len(a) != len(b) {
		return TFalse
	}
	var ors []*Term
	prefix := TTrue
	for i := range a {
		ors = append(ors, And(prefix, Lt(a[i], b[i]), Ge(b[i], IntLit(0))))
		prefix = And(prefix, Eq(a[i], b[i]))
	}
	return Or(ors...)
}

// havocHeap pushes a havoc layer for the given locations.
func (ex *Exec) havocHeap(st *State, tag string, locs []assignLoc, all bool, mayAlloc bool) *Heap {
	fc := ex.fc
	h := st.heap.havoc(tag, st.alloc())
	h.all = all
	newAlloc := st.alloc()
	if mayAlloc {
		newAlloc = fc.d.Fresh("alloc", SInt)
		st.assume(Ge(newAlloc, st.alloc()))
	}
	for _, l := range locs {
		if l.isMap {
			vk, dk, vs, ds := fc.mapKeys(l.mapTyp)
			h.hav[vk] = append(h.hav[vk], havEntry{l.ref, fc.d.Fresh("hv", vs)})
			h.hav[dk] = append(h.hav[dk], havEntry{l.ref, fc.d.Fresh("hd", ds)})
			continue
		}
		if l.ref == nil {
			h.havAll[l.key] = true
			continue
		}
		fc.declSort(l.sort)
		nv := fc.d.Fresh("hv", l.sort)
		h.hav[l.key] = append(h.hav[l.key], havEntry{l.ref, nv})
		st.assume(fc.wellFormed(nv, l.typ, newAlloc))
	}
	st.heap = h
	st.allocBase = newAlloc
	st.allocOff = 0
	return h
}

// ---------- values ----------

func (ex *Exec) val(st *State, v ssa.Value) SVal {
	fr := st.top()
	switch v := v.(type) {
	case *ssa.Const:
		return ex.constVal(v)
	case *ssa.Global:
		return SVal{HAddr: ex.globalAddr(v), Val: Val{Typ: v.Type()}}
	case *ssa.Function:
		return SVal{Val: Val{T: App(SFn, "mk_fn", IntLit(int64(ex.u.funcID(ex.u.displayName(v)))), IntLit(0)), Typ: v.Type()},
			Closure: &ClosureInfo{fn: v}}
	case *ssa.Builtin:
		ex.unsupported(st, "builtin as value")
	}
	if sv, ok := fr.vals[v]; ok {
		return sv
	}
	ex.unsupported(st, "no value for %s (%T) in %s", v.Name(), v, ex.u.displayName(fr.fn))
	return SVal{}
}

func (ex *Exec) globalAddr(g *ssa.Global) *HeapAddr {
	et := g.Type().Underlying().(*types.Pointer).Elem()
	s := ex.u.sortOf(et)
	ex.fc.declSort(s)
	key := "global:" + g.Name()
	if g.Pkg != ex.u.pkg {
		key = "global:" + g.Pkg.Pkg.Name() + "." + g.Name()
	}
	return &HeapAddr{ref: IntLit(0), key: key, sort: s, typ: et}
}

func (ex *Exec) constVal(c *ssa.Const) SVal {
	fc := ex.fc
	t := c.Type()
	if c.Value == nil {
		// zero value
		if _, ok := t.Underlying().(*types.Basic); ok && t.Underlying().(*types.Basic).Kind() == types.UntypedNil {
			return SVal{Val: Val{T: IntLit(0), Typ: t}}
		}
		return SVal{Val: Val{T: fc.zeroOf(t), Typ: t}}
	}
	return SVal{Val: fc.constVal(c.Value, t)}
}

func (ex *Exec) setVal(st *State, v ssa.Value, sv SVal) {
	if sv.T != nil && len(sv.T.S) > 160 && sv.T.Sort != SUnit {
		// name large terms to keep VCs small
		n := ex.fc.d.Fresh("t", sv.T.Sort)
		st.assume(Eq(n, sv.T))
		if sv.T.Sort.IsSeq() {
			termDefs[n.S] = sv.T
		}
		sv.T = n
	}
	st.top().vals[v] = sv
}

func isConstTrue(v ssa.Value) bool {
	c, ok := v.(*ssa.Const)
	return ok && c.Value != nil && c.Value.Kind() == constant.Bool && constant.BoolVal(c.Value)
}

var _ = token.NoPos
