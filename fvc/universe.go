package main

// Loading /repo, building SSA, naming functions, mapping Go types to sorts.

import (
	"fmt"
	"go/token"
	"go/types"
	"os"
	"path/filepath"
	"sort"
	"strings"

	"golang.org/x/tools/go/packages"
	"golang.org/x/tools/go/ssa"
	"golang.org/x/tools/go/ssa/ssautil"
)

type Universe struct {
	repo      string
	fset      *token.FileSet
	prog      *ssa.Program
	pkg       *ssa.Package
	tpkg      *types.Package
	pkgs      []*packages.Package
	funcs     map[string]*ssa.Function // display name -> function (in-package, incl. instances and anonymous)
	funcList  []*ssa.Function
	contracts map[string]*Contract
	specFuncs map[string]*SpecFunc
	ghosts    map[string]*GhostField
	ghostGlobals map[string]*GhostField
	lemmas    []*Lemma
	bvTypes   map[string]bool
	typeIDs   map[string]int
	typeByID  map[int]types.Type
	funcIDs   map[string]int
	assumes   []string
	specFiles []string
	loops     map[*ssa.Function][]*LoopInfo

	asets         map[string]*AssignSet
	axioms        []*Clause
	onlyWrites    map[string][]string
	objinvs       map[string]*ObjInv // by struct type name
	objinvFields  map[string]string  // heap key -> struct type name
	loadErrs      []string
	gfacts        []*gfact
	globalFacts   map[string]*globalFact
	globalWritten map[string]string
	fieldWritten  map[string]string
	initInvs      []*InitInv
	smapType      *types.Map
	inlined       map[string]bool // functions inlined into a function under contract during this run
	nameBase      map[string]*nameBase // recorded parameter/local names (names.go)
}

func repoDir() string {
	if d := os.Getenv("FVC_REPO"); d != "" {
		return d
	}
	return "/repo"
}

func verifDir() string {
	if d := os.Getenv("FVC_VERIF"); d != "" {
		return d
	}
	exe, err := os.Executable()
	if err == nil {
		d := filepath.Dir(filepath.Dir(exe))
		if _, err := os.Stat(filepath.Join(d, "spec")); err == nil {
			return d
		}
	}
	return "/verif"
}

func loadUniverse() (*Universe, error) {
	u := &Universe{
		repo:      repoDir(),
		funcs:     map[string]*ssa.Function{},
		contracts: map[string]*Contract{},
		specFuncs: map[string]*SpecFunc{},
		ghosts:    map[string]*GhostField{},
		bvTypes:   map[string]bool{},
		asets:     map[string]*AssignSet{},
		objinvs:   map[string]*ObjInv{},
		objinvFields: map[string]string{},
		typeIDs:   map[string]int{},
		typeByID:  map[int]types.Type{},
		funcIDs:   map[string]int{},
		loops:     map[*ssa.Function][]*LoopInfo{},
		inlined:   map[string]bool{},
	}
	env := append(os.Environ(), "GOFLAGS=-mod=mod", "GOPROXY=off", "GOSUMDB=off", "GOTOOLCHAIN=local")
	cfg := &packages.Config{Mode: packages.LoadAllSyntax, Dir: u.repo, BuildFlags: []string{"-tags=verif"}, Env: env}
	pkgs, err := packages.Load(cfg, ".")
	if err != nil {
		return nil, err
	}
	if len(pkgs) != 1 {
		return nil, fmt.Errorf("expected one package, got %d", len(pkgs))
	}
	if len(pkgs[0].Errors) > 0 {
		return nil, fmt.Errorf("package errors: %v", pkgs[0].Errors)
	}
	u.pkgs = pkgs
	u.fset = pkgs[0].Fset
	prog, spkgs := ssautil.AllPackages(pkgs, ssa.NaiveForm|ssa.InstantiateGenerics|ssa.GlobalDebug)
	prog.Build()
	u.prog = prog
	u.pkg = spkgs[0]
	u.tpkg = pkgs[0].Types

	// enumerate functions
	all := ssautil.AllFunctions(prog)
	for fn := range all {
		if fn.Pkg != u.pkg && !(fn.Pkg == nil && fn.Origin() != nil && fn.Origin().Pkg == u.pkg) {
			// also accept wrappers/bound thunks of package functions
			if fn.Synthetic == "" || !strings.Contains(fn.String(), u.tpkg.Path()) {
				continue
			}
		}
		name := u.displayName(fn)
		if old, ok := u.funcs[name]; ok && old != fn {
			// keep the one with blocks
			if len(old.Blocks) > 0 {
				continue
			}
		}
		u.funcs[name] = fn
	}
	for _, n := range sortedKeys(u.funcs) {
		u.funcList = append(u.funcList, u.funcs[n])
	}

	u.computeGlobalFacts()

	// contracts in the repo (comment-only file behind the build tag)
	cpath := filepath.Join(u.repo, "contracts_verif.go")
	if _, err := os.Stat(cpath); err == nil {
		sf, err := loadContractsFromGo(cpath)
		if err != nil {
			return nil, err
		}
		if err := u.addSpec(sf, cpath); err != nil {
			return nil, err
		}
	}
	specDir := filepath.Join(verifDir(), "spec")
	if d := os.Getenv("FVC_SPEC"); d != "" {
		specDir = d
	}
	u.loadNameBase(specDir)
	specs, _ := filepath.Glob(filepath.Join(specDir, "*.fvs"))
	sort.Strings(specs)
	for _, sp := range specs {
		sf, err := loadSpecFile(sp)
		if err != nil {
			return nil, err
		}
		if err := u.addSpec(sf, sp); err != nil {
			return nil, err
		}
	}
	u.checkGlobalFacts()
	u.checkObjInvWriters()
	u.checkInitInvs()
	return u, nil
}

func (u *Universe) addSpec(sf *SpecFile, path string) error {
	u.specFiles = append(u.specFiles, path)
	for _, f := range sf.Funcs {
		if _, dup := u.specFuncs[f.Name]; dup {
			return fmt.Errorf("%s: duplicate spec function %s", f.P, f.Name)
		}
		u.specFuncs[f.Name] = f
	}
	for _, g := range sf.Ghosts {
		if g.Owner == "" {
			if u.ghostGlobals == nil {
				u.ghostGlobals = map[string]*GhostField{}
			}
			u.ghostGlobals[g.Name] = g
			continue
		}
		u.ghosts[g.Owner+"."+g.Name] = g
	}
	for _, c := range sf.Contracts {
		if _, dup := u.contracts[c.FuncName]; dup {
			return fmt.Errorf("%s: duplicate contract for %s", c.P, c.FuncName)
		}
		u.contracts[c.FuncName] = c

		if c.Trusted {
			u.assumes = append(u.assumes, "trusted (body not verified): "+c.FuncName)
		}
	}
	for _, a := range sf.Axioms {
		u.axioms = append(u.axioms, a)
		u.assumes = append(u.assumes, "assumed axiom: "+a.Text)
	}
	for k, v := range sf.OnlyWrites {
		if u.onlyWrites == nil {
			u.onlyWrites = map[string][]string{}
		}
		u.onlyWrites[k] = v
	}
	for _, a := range sf.ASets {
		u.asets[a.Name] = a
	}
	for _, oi := range sf.ObjInvs {
		u.objinvs[oi.Type] = oi
		t, err := u.parseType(oi.Type)
		if err != nil {
			return err
		}
		_, st := derefStruct(t)
		if st == nil {
			return fmt.Errorf("%s: objinv on non-struct %s", oi.P, oi.Type)
		}
		var walk func(e Expr)
		walk = func(e Expr) {
			switch x := e.(type) {
			case *EField:
				if id, ok := x.X.(*EIdent); ok && id.Name == oi.Param {
					for i := 0; i < st.NumFields(); i++ {
						if st.Field(i).Name() == x.Name {
							u.objinvFields[u.fieldKey(t, st.Field(i))] = oi.Type
						}
					}
				}
				walk(x.X)
			case *EBinary:
				walk(x.X)
				walk(x.Y)
			case *EUnary:
				walk(x.X)
			case *ECall:
				for _, a := range x.Args {
					walk(a)
				}
			case *ECond:
				walk(x.C)
				walk(x.A)
				walk(x.B)
			}
		}
		walk(oi.E)
	}
	u.initInvs = append(u.initInvs, sf.InitInvs...)
	u.lemmas = append(u.lemmas, sf.Lemmas...)
	for _, g := range sf.GFacts {
		u.gfacts = append(u.gfacts, &gfact{clause: g})
	}
	for _, b := range sf.BVTypes {
		u.bvTypes[b] = true
	}
	return nil
}

// displayName gives the name used in contract files: "funLeft", "(*Scanner).Scan",
// "parseDelimitedList[Expression]", "(*Scanner).scanNumber$1", "pkg.Func" for externals.
func (u *Universe) displayName(fn *ssa.Function) string {
	s := fn.String() // e.g. (*github.com/aundis/formula.Scanner).Scan or github.com/aundis/formula.funLeft
	return u.shorten(s)
}

func (u *Universe) shorten(s string) string {
	s = strings.ReplaceAll(s, u.tpkg.Path()+".", "")
	// shorten external package paths to their last element
	// e.g. (*github.com/ericlagergren/decimal.Big).Add -> (*decimal.Big).Add
	var sb strings.Builder
	i := 0
	for i < len(s) {
		// find a path-like run: letters, digits, '.', '/', '-', '_'
		j := i
		for j < len(s) && (isPathChar(s[j])) {
			j++
		}
		if j > i {
			run := s[i:j]
			if k := strings.LastIndex(run, "/"); k >= 0 {
				run = run[k+1:]
			}
			sb.WriteString(run)
			i = j
		} else {
			sb.WriteByte(s[i])
			i++
		}
	}
	return sb.String()
}

func isPathChar(c byte) bool {
	return c == '/' || c == '.' || c == '-' || c == '_' || c == '$' || (c >= 'a' && c <= 'z') || (c >= 'A' && c <= 'Z') || (c >= '0' && c <= '9')
}

// genericName strips the instantiation suffix: parseDelimitedList[Expression] -> parseDelimitedList
func genericName(name string) string {
	if i := strings.Index(name, "["); i >= 0 && strings.HasSuffix(name, "]") {
		return name[:i]
	}
	return name
}

// contractFor finds the contract that applies to fn (following 'like' is done by callers).
func (u *Universe) contractFor(fn *ssa.Function) *Contract {
	name := u.displayName(fn)
	if c, ok := u.contracts[name]; ok {
		return c
	}
	if c, ok := u.contracts[genericName(name)]; ok {
		return c
	}
	// bound method closure body: (*Parser).scanError$bound -> contract of the method
	if strings.HasSuffix(name, "$bound") {
		if c, ok := u.contracts[strings.TrimSuffix(name, "$bound")]; ok {
			return c
		}
	}
	return nil
}

func (u *Universe) resolveLike(c *Contract) *Contract {
	seen := 0
	for c != nil && c.Like != "" && seen < 10 {
		n, ok := u.contracts[c.Like]
		if !ok {
			return c
		}
		c = n
		seen++
	}
	return c
}

// ---------- sorts ----------

func (u *Universe) typeName(t types.Type) string {
	return u.shorten(types.TypeString(t, nil))
}

func (u *Universe) sortOf(t types.Type) Sort {
	if t == nil {
		return SInt
	}
	if n, ok := t.(*types.Named); ok {
		if u.bvTypes[n.Obj().Name()] && n.Obj().Pkg() == u.tpkg {
			return SBV
		}
	}
	if a, ok := t.(*types.Alias); ok {
		return u.sortOf(types.Unalias(a))
	}
	switch ut := t.Underlying().(type) {
	case *types.Basic:
		switch {
		case ut.Info()&types.IsBoolean != 0:
			return SBool
		case ut.Info()&types.IsInteger != 0:
			return SInt
		case ut.Info()&types.IsFloat != 0:
			return SF64
		case ut.Info()&types.IsString != 0:
			return SStr
		case ut.Kind() == types.UnsafePointer:
			return SInt
		case ut.Kind() == types.UntypedNil:
			return SInt
		}
		return SInt
	case *types.Pointer, *types.Map, *types.Chan:
		return SInt
	case *types.Slice:
		return SeqOf(u.elemSort(ut.Elem()))
	case *types.Array:
		return SeqOf(u.elemSort(ut.Elem()))
	case *types.Interface:
		return SAny
	case *types.Signature:
		return SFn
	case *types.Struct:
		return Sort("U_" + sanitize(u.typeName(t)))
	case *types.Tuple:
		return SUnit
	}
	if _, ok := t.(*types.TypeParam); ok {
		return SAny
	}
	return SInt
}

// elemSort: sort of the elements of a slice/array of t. Sequences of sequences are weakly
// supported by the solvers, so sequence-valued elements (strings, slices) are boxed to Int.
func (u *Universe) elemSort(t types.Type) Sort {
	s := u.sortOf(t)
	if s.IsSeq() {
		return SInt
	}
	return s
}

func (u *Universe) boxedElem(t types.Type) bool {
	return t != nil && u.sortOf(t).IsSeq()
}

func (u *Universe) typeID(t types.Type) int {
	if a, ok := t.(*types.Alias); ok {
		t = types.Unalias(a)
	}
	k := types.TypeString(t, nil)
	if id, ok := u.typeIDs[k]; ok {
		return id
	}
	id := len(u.typeIDs) + 1
	u.typeIDs[k] = id
	u.typeByID[id] = t
	return id
}

func (u *Universe) funcID(name string) int {
	if id, ok := u.funcIDs[name]; ok {
		return id
	}
	id := len(u.funcIDs) + 1
	u.funcIDs[name] = id
	return id
}

// parseType resolves a type written in a spec file. Special sort names are handled
// by specSort; everything else is evaluated as a Go type in the package scope.
func (u *Universe) parseType(text string) (types.Type, error) {
	text = strings.TrimSpace(text)
	tv, err := types.Eval(u.fset, u.tpkg, token.NoPos, text)
	if err == nil && tv.IsType() {
		return tv.Type, nil
	}
	// qualified external type: pkg.Name or *pkg.Name - search imports
	ptr := 0
	base := text
	for strings.HasPrefix(base, "*") {
		ptr++
		base = base[1:]
	}
	slice := 0
	for strings.HasPrefix(base, "[]") {
		slice++
		base = base[2:]
		for strings.HasPrefix(base, "*") {
			ptr++
			base = base[1:]
		}
	}
	if i := strings.Index(base, "."); i > 0 {
		pn, tn := base[:i], base[i+1:]
		var found types.Type
		var visit func(p *types.Package, depth int)
		seen := map[*types.Package]bool{}
		visit = func(p *types.Package, depth int) {
			if seen[p] || found != nil {
				return
			}
			seen[p] = true
			if p.Name() == pn {
				if o := p.Scope().Lookup(tn); o != nil {
					if _, ok := o.(*types.TypeName); ok {
						found = o.Type()
						return
					}
				}
			}
			for _, imp := range p.Imports() {
				visit(imp, depth+1)
			}
		}
		visit(u.tpkg, 0)
		if found != nil {
			t := found
			// note: pointer/slice nesting order is approximated (pointers innermost)
			for k := 0; k < ptr; k++ {
				t = types.NewPointer(t)
			}
			for k := 0; k < slice; k++ {
				t = types.NewSlice(t)
			}
			return t, nil
		}
	}
	return nil, fmt.Errorf("cannot resolve type %q: %v", text, err)
}

// specSort maps a type text of the spec language to (sort, Go type or nil).
func (u *Universe) specSort(text string) (Sort, types.Type, error) {
	text = strings.TrimSpace(text)
	switch text {
	case "int":
		return SInt, types.Typ[types.Int], nil
	case "bool":
		return SBool, types.Typ[types.Bool], nil
	case "string", "str":
		return SStr, types.Typ[types.String], nil
	case "any":
		return SAny, nil, nil
	case "ref":
		return SInt, nil, nil
	case "dv":
		return SDV, nil, nil
	case "f64":
		return SF64, types.Typ[types.Float64], nil
	case "fn":
		return SFn, nil, nil
	case "bv":
		return SBV, nil, nil
	}
	if strings.HasPrefix(text, "seq[") && strings.HasSuffix(text, "]") {
		es, et, err := u.specSort(text[4 : len(text)-1])
		if err != nil {
			return "", nil, err
		}
		var st types.Type
		if et != nil {
			st = types.NewSlice(et)
		}
		return SeqOf(es), st, nil
	}
	t, err := u.parseType(text)
	if err != nil {
		return "", nil, err
	}
	return u.sortOf(t), t, nil
}

// ---------- struct fields ----------

// fieldKey names the heap array for a field: "<DeclaringStruct>.<field>".
func (u *Universe) fieldKey(structType types.Type, fld *types.Var) string {
	return u.typeName(structType) + "." + fld.Name()
}

func derefStruct(t types.Type) (types.Type, *types.Struct) {
	if p, ok := t.Underlying().(*types.Pointer); ok {
		t = p.Elem()
	}
	if a, ok := t.(*types.Alias); ok {
		t = types.Unalias(a)
	}
	s, _ := t.Underlying().(*types.Struct)
	return t, s
}

// ---------- loops ----------

type LoopInfo struct {
	Header  *ssa.BasicBlock
	Ordinal int
	Body    map[*ssa.BasicBlock]bool
	Stored  []*ssa.Alloc // local cells stored to inside the loop
}

func (u *Universe) loopsOf(fn *ssa.Function) []*LoopInfo {
	if l, ok := u.loops[fn]; ok {
		return l
	}
	var loops []*LoopInfo
	byHeader := map[*ssa.BasicBlock]*LoopInfo{}
	for _, b := range fn.Blocks {
		for _, s := range b.Succs {
			if s.Dominates(b) { // back edge b -> s
				li := byHeader[s]
				if li == nil {
					li = &LoopInfo{Header: s, Body: map[*ssa.BasicBlock]bool{s: true}}
					byHeader[s] = li
					loops = append(loops, li)
				}
				// natural loop: nodes reaching b without passing through s
				var stack []*ssa.BasicBlock
				if !li.Body[b] {
					li.Body[b] = true
					stack = append(stack, b)
				}
				for len(stack) > 0 {
					x := stack[len(stack)-1]
					stack = stack[:len(stack)-1]
					for _, p := range x.Preds {
						if !li.Body[p] {
							li.Body[p] = true
							stack = append(stack, p)
						}
					}
				}
			}
		}
	}
	// order by source position of the header's first positioned instruction, fall back to block index
	posOf := func(li *LoopInfo) token.Pos {
		best := token.NoPos
		for b := range li.Body {
			for _, in := range b.Instrs {
				if p := in.Pos(); p.IsValid() && (best == token.NoPos || p < best) {
					best = p
				}
			}
		}
		return best
	}
	sort.SliceStable(loops, func(i, j int) bool {
		pi, pj := posOf(loops[i]), posOf(loops[j])
		if pi != pj {
			return pi < pj
		}
		return loops[i].Header.Index < loops[j].Header.Index
	})
	for i, li := range loops {
		li.Ordinal = i + 1
		seen := map[*ssa.Alloc]bool{}
		for b := range li.Body {
			for _, in := range b.Instrs {
				if st, ok := in.(*ssa.Store); ok {
					if a := rootAlloc(st.Addr); a != nil && !seen[a] {
						seen[a] = true
						li.Stored = append(li.Stored, a)
					}
				}
			}
		}
		sort.Slice(li.Stored, func(a, b int) bool { return li.Stored[a].Pos() < li.Stored[b].Pos() })
	}
	u.loops[fn] = loops
	return loops
}

// rootAlloc returns the local (non-heap) alloc an address is rooted in, if any.
func rootAlloc(v ssa.Value) *ssa.Alloc {
	for {
		switch x := v.(type) {
		case *ssa.Alloc:
			if !x.Heap {
				return x
			}
			return nil
		case *ssa.FieldAddr:
			v = x.X
		case *ssa.IndexAddr:
			v = x.X
		default:
			return nil
		}
	}
}


// checkObjInvWriters: every function that writes a field mentioned by an object invariant
// must be under contract (so that the invariant is an obligation at its return).
func (u *Universe) checkObjInvWriters() {
	// onlywrites: syntactic sweep over every function of the package
	if len(u.onlyWrites) > 0 {
		writers := map[string]map[string]bool{}
		for _, fn := range u.funcList {
			for _, b := range fn.Blocks {
				for _, in := range b.Instrs {
					if st, ok := in.(*ssa.Store); ok {
						if fa, ok := st.Addr.(*ssa.FieldAddr); ok {
							stT, s := derefStruct(fa.X.Type())
							key := u.fieldKey(stT, s.Field(fa.Field))
							if writers[key] == nil {
								writers[key] = map[string]bool{}
							}
							n := u.displayName(fn)
							if fn.Origin() != nil {
								n = genericName(n)
							}
							writers[key][n] = true
						}
					}
				}
			}
		}
		for _, key := range sortedKeys(u.onlyWrites) {
			allowed := map[string]bool{}
			for _, a := range u.onlyWrites[key] {
				allowed[strings.TrimSpace(a)] = true
			}
			for w := range writers[key] {
				if !allowed[w] {
					u.loadErrs = append(u.loadErrs, fmt.Sprintf("field %s is written by %s, which is not in its onlywrites list", key, w))
				}
			}
		}
		sort.Strings(u.loadErrs)
	}
	for _, fn := range u.funcList {
		if len(fn.Blocks) == 0 || fn.Synthetic != "" {
			continue
		}
		for _, b := range fn.Blocks {
			for _, in := range b.Instrs {
				st, ok := in.(*ssa.Store)
				if !ok {
					continue
				}
				fa, ok := st.Addr.(*ssa.FieldAddr)
				if !ok {
					continue
				}
				stT, s := derefStruct(fa.X.Type())
				key := u.fieldKey(stT, s.Field(fa.Field))
				if tn, ok := u.objinvFields[key]; ok {
					c := u.contractFor(fn)
					if c == nil || c.Trusted {
						u.loadErrs = append(u.loadErrs, fmt.Sprintf("field %s of object invariant %s is written by %s, which is not under contract", key, tn, u.displayName(fn)))
					}
				}
			}
		}
	}
}

// objInvFor returns the object invariant for pointer type t (or nil).
func (u *Universe) objInvFor(t types.Type) *ObjInv {
	if t == nil || len(u.objinvs) == 0 {
		return nil
	}
	pt, ok := t.Underlying().(*types.Pointer)
	if !ok {
		return nil
	}
	n, ok := pt.Elem().(*types.Named)
	if !ok || n.Obj().Pkg() != u.tpkg {
		return nil
	}
	return u.objinvs[n.Obj().Name()]
}

// checkInitInvs: (1) the establishing init function gets the invariant as a postcondition;
// (2) every package variable the invariant mentions is written, or has its address taken,
// only inside that function (so the fact holds at the entry of every other function).
func (u *Universe) checkInitInvs() {
	for _, ii := range u.initInvs {
		c := u.contracts[ii.By]
		if c == nil || u.funcs[ii.By] == nil {
			u.loadErrs = append(u.loadErrs, fmt.Sprintf("initinv %s: no contract (or no function) %s to establish it", ii.Name, ii.By))
			continue
		}
		u.assumes = append(u.assumes, "init invariant "+ii.Name+": proved as a postcondition of "+ii.By+" and assumed at the entry of every other function (a sweep shows nothing else writes the variables it mentions; init functions run before any other code)")
		cl := *ii.Clause
		cl.Tags = append(append([]string{}, cl.Tags...), c.Tags...)
		c.Ensures = append(c.Ensures, &cl)
		// variables mentioned
		var vars []string
		seen := map[string]bool{}
		var walk func(e Expr)
		walk = func(e Expr) {
			switch x := e.(type) {
			case *EIdent:
				if _, ok := u.tpkg.Scope().Lookup(x.Name).(*types.Var); ok && !seen[x.Name] {
					seen[x.Name] = true
					vars = append(vars, x.Name)
				}
			case *EBinary:
				walk(x.X)
				walk(x.Y)
			case *EUnary:
				walk(x.X)
			case *ECall:
				for _, a := range x.Args {
					walk(a)
				}
			case *ECond:
				walk(x.C)
				walk(x.A)
				walk(x.B)
			case *EIndex:
				walk(x.X)
				walk(x.I)
			case *EField:
				walk(x.X)
			case *EQuant:
				walk(x.Body)
			case *ELet:
				walk(x.V)
				walk(x.Body)
			}
		}
		walk(ii.Clause.E)
		for _, fn := range u.funcList {
			if len(fn.Blocks) == 0 || u.displayName(fn) == ii.By {
				continue
			}
			if fn.Pkg != u.pkg && !(fn.Origin() != nil && fn.Origin().Pkg == u.pkg) {
				continue
			}
			for _, b := range fn.Blocks {
				for _, in := range b.Instrs {
					for _, op := range in.Operands(nil) {
						g := rootGlobal(*op)
						if g == nil || g.Pkg != u.pkg || !seen[g.Name()] {
							continue
						}
						ok := false
						switch x := in.(type) {
						case *ssa.UnOp, *ssa.FieldAddr, *ssa.IndexAddr, *ssa.DebugRef:
							ok = true
						case ssa.CallInstruction:
							if sc := x.Common().StaticCallee(); sc != nil && len(x.Common().Args) > 0 && x.Common().Args[0] == *op {
								ok = readOnlyMethods[u.displayName(sc)]
							}
						}
						if !ok {
							u.loadErrs = append(u.loadErrs, fmt.Sprintf("initinv %s: package variable %s is written (or its address escapes) in %s, not only in %s", ii.Name, g.Name(), u.displayName(fn), ii.By))
						}
					}
					if mu, ok := in.(*ssa.MapUpdate); ok {
						if g := rootGlobalVal(mu.Map); g != nil && seen[g.Name()] {
							u.loadErrs = append(u.loadErrs, fmt.Sprintf("initinv %s: the map in %s is updated in %s, not only in %s", ii.Name, g.Name(), u.displayName(fn), ii.By))
						}
					}
				}
			}
		}
		_ = vars
	}
	sort.Strings(u.loadErrs)
}
