package main

import (
	"runtime/debug"
	"os"
	"fmt"
	"go/token"
	"go/types"
	"strings"

	"golang.org/x/tools/go/ssa"
)

// check emits (for functions that must not panic) or forks on a run-time check.
// Returns false if the path cannot continue (always continues today).
func (ex *Exec) check(st *State, in ssa.Instruction, kind string, safe *Term) {
	fc := ex.fc
	if safe.S == "true" {
		return
	}
	root := st.frames[0]
	if root.contract != nil && root.contract.NoPanic {
		fc.emit(st, "panic", fc.siteFor(in, kind), "no run-time panic ("+kind+") at "+ex.posOf(in), root.contract.PanicTags, safe)
	}
	// on both kinds of function continue on the safe branch only: exceptional exits of
	// functions that may panic carry no obligations unless a deferred recover observes them
	st.assume(safe)
}

func (ex *Exec) posOf(in ssa.Instruction) string {
	p := in.Pos()
	if !p.IsValid() {
		// search nearby
		if b := in.Block(); b != nil {
			for _, i2 := range b.Instrs {
				if i2.Pos().IsValid() {
					p = i2.Pos()
					break
				}
			}
		}
	}
	if !p.IsValid() {
		return ex.u.displayName(in.Parent())
	}
	pp := ex.u.fset.Position(p)
	return fmt.Sprintf("%s:%d", shortFile(pp.Filename), pp.Line)
}

func shortFile(f string) string {
	if i := strings.LastIndex(f, "/"); i >= 0 {
		return f[i+1:]
	}
	return f
}

func (ex *Exec) explicitPanic(st *State, in ssa.Instruction) {
	fc := ex.fc
	root := st.frames[0]
	if root.contract != nil && root.contract.NoPanic {
		fc.emit(st, "panic", fc.siteFor(in, "explicit"), "explicit panic unreachable at "+ex.posOf(in), root.contract.PanicTags, TFalse)
	}
	st.panicking = true
}

func (ex *Exec) hasDefers(st *State) bool {
	for _, f := range st.frames {
		if len(f.defers) > 0 {
			return true
		}
	}
	return false
}

// unwind propagates a panic. Returns true when the path is finished.
func (ex *Exec) unwind(st *State) bool {
	for {
		fr := st.top()
		if os.Getenv("FVC_DEBUGPANIC") != "" {
			fmt.Fprintf(os.Stderr, "DEBUGPANIC unwind frames=%d top=%s isDefer=%v defers=%d recovered=%v\n", len(st.frames), fr.fn.Name(), fr.isDefer, len(fr.defers), st.recovered)
		}
		if fr.isDefer {
			if os.Getenv("FVC_DEBUGPANIC") != "" {
				debug.PrintStack()
			}
			// panic inside a deferred function: propagates; treat as end of path
			return true
		}
		if len(fr.defers) > 0 {
			d := fr.defers[len(fr.defers)-1]
			fr.defers = fr.defers[:len(fr.defers)-1]
			ex.pushDeferred(st, d)
			return false
		}
		if st.recovered {
			st.panicking = false
			st.recovered = false
			if fr.fn.Recover != nil {
				fr.prev = nil
				fr.block = fr.fn.Recover
				fr.idx = 0
				return false
			}
			ex.unsupported(st, "recover without recover block")
		}
		if len(st.frames) == 1 {
			if fr.contract != nil && fr.contract.NoPanic && st.escapeSite != nil {
				ex.fc.emit(st, "panic", ex.fc.siteFor(st.escapeSite, "escape"), "a panic raised here is not recovered by the deferred functions", fr.contract.PanicTags, TFalse)
			}
			return true
		}
		st.frames = st.frames[:len(st.frames)-1]
	}
}

func (ex *Exec) pushDeferred(st *State, d deferred) {
	ci := d.fn.Closure
	if ci == nil {
		ex.unsupported(st, "deferred call of unknown function")
	}
	ex.u.inlined[ex.u.displayName(ci.fn)] = true
	nf := &Frame{fn: ci.fn, vals: map[ssa.Value]SVal{}, locals: map[string]SVal{}, variant: map[*ssa.BasicBlock][]*Term{}, isDefer: true, contract: ex.u.contractFor(ci.fn)}
	for i, fv := range ci.fn.FreeVars {
		nf.vals[fv] = ci.bindings[i]
	}
	for i, p := range ci.fn.Params {
		nf.vals[p] = d.args[i]
	}
	nf.block = ci.fn.Blocks[0]
	st.frames = append(st.frames, nf)
}

// doReturn handles a return instruction. Returns true if the path is finished.
func (ex *Exec) doReturn(st *State, fr *Frame, in *ssa.Return) bool {
	fc := ex.fc
	var results []SVal
	for _, r := range in.Results {
		results = append(results, ex.val(st, r))
	}
	if fr.isDefer {
		st.frames = st.frames[:len(st.frames)-1]
		if st.panicking {
			return ex.unwind(st)
		}
		return false // parent re-executes rundefers
	}
	if len(st.frames) == 1 {
		// root: check postconditions
		if os.Getenv("FVC_DEBUGPANIC") != "" && strings.Contains(strings.Join(st.path, " "), "panic-in") {
			fmt.Fprintf(os.Stderr, "DEBUGPANIC return on path %s pc=%d\n", strings.Join(st.path, " "), len(st.pc))
			for _, t := range st.pc {
				if len(t.S) < 200 {
					fmt.Fprintf(os.Stderr, "   pc: %s\n", t.S)
				}
			}
		}
		extra := map[string]Val{}
		sig := fr.fn.Signature
		for i, r := range results {
			extra[fmt.Sprintf("result%d", i)] = r.Val
			if i == 0 {
				extra["result"] = r.Val
			}
			if n := sig.Results().At(i).Name(); n != "" && n != "_" {
				extra[n] = r.Val
			}
		}
		seenT := map[string]bool{}
		for _, tc := range st.touched {
			if seenT[tc.typ+tc.ref.S] {
				continue
			}
			seenT[tc.typ+tc.ref.S] = true
			oi := ex.u.objinvs[tc.typ]
			t, _ := ex.u.parseType("*" + tc.typ)
			ienv := &Env{fc: fc, heap: st.heap, oldHeap: st.heap, alloc: st.alloc(), oldAlloc: st.alloc(), vars: map[string]Val{oi.Param: {T: tc.ref, Typ: t}}, side: &st.pc}
			fc.emit(st, "objinv."+tc.typ, "", "object invariant of "+tc.typ+": "+oi.Text, oi.Tags, ienv.evalBool(oi.E))
		}
		// vacuity guard: this return is reachable under the contract's assumptions (must be satisfiable)
		fc.obs = append(fc.obs, &Obligation{Name: fc.name + "#cover.return", Func: fc.name, Kind: "cover", Tags: []string{"COVER"}, Clause: "some return of the function is reachable under its preconditions and invariants (vacuity guard)",
			Goal: TTrue, PC: append([]*Term(nil), st.pc...), Path: strings.Join(st.path, " "), fc: fc, MustSat: true})
		env := ex.envFor(st, extra)
		fc.curObs = fc.observablesAt(st, results)
		for i, e := range fr.contract.Ensures {
			t := env.evalBool(e.E)
			fc.emit(st, fmt.Sprintf("post.%d", i+1), "", e.Text, e.Tags, t)
		}
		fc.curObs = nil
		return true
	}
	// inlined callee: hand results to caller
	st.frames = st.frames[:len(st.frames)-1]
	parent := st.top()
	if fr.call != nil {
		if v := fr.call.Value(); v != nil {
			ex.setVal(st, v, tupleOf(results, fr.fn.Signature.Results()))
		}
	}
	_ = parent
	return false
}

func tupleOf(rs []SVal, t *types.Tuple) SVal {
	if len(rs) == 1 {
		return rs[0]
	}
	var vs []Val
	for _, r := range rs {
		vs = append(vs, r.Val)
	}
	return SVal{Val: Val{Tuple: vs, Typ: t}}
}

// step executes one non-control instruction. Returns true if it forked (and finished both branches).
func (ex *Exec) step(st *State, fr *Frame, in ssa.Instruction) bool {
	fc := ex.fc
	u := ex.u
	switch in := in.(type) {
	case *ssa.DebugRef:
		return false
	case *ssa.Alloc:
		et := in.Type().Underlying().(*types.Pointer).Elem()
		if at, ok := et.Underlying().(*types.Array); ok {
			cell := &ArrCell{et: at.Elem()}
			for i := int64(0); i < at.Len(); i++ {
				cell.elems = append(cell.elems, Val{T: fc.zeroOf(at.Elem()), Typ: at.Elem()})
			}
			ex.setVal(st, in, SVal{Arr: cell, Val: Val{Typ: in.Type()}})
			return false
		}
		if !in.Heap {
			fr.locals[localKey(in, "")] = SVal{Val: Val{T: ex.zeroFor(et), Typ: et}}
			// struct-typed locals keep per-field cells created lazily
			ex.setVal(st, in, SVal{Loc: &LocalAddr{alloc: in, typ: et}, Val: Val{Typ: in.Type()}})
			return false
		}
		ref := ex.allocObject(st, et)
		ex.setVal(st, in, SVal{Val: Val{T: ref, Typ: in.Type()}})
	case *ssa.FieldAddr:
		x := ex.val(st, in.X)
		stT, s := derefStruct(in.X.Type())
		f := s.Field(in.Field)
		if x.Loc != nil {
			ex.setVal(st, in, SVal{Loc: &LocalAddr{alloc: x.Loc.alloc, path: x.Loc.path + "." + f.Name(), typ: f.Type()}, Val: Val{Typ: in.Type()}})
			return false
		}
		if x.T == nil {
			ex.unsupported(st, "field address of non-reference %s", in.X.Name())
		}
		ex.check(st, in, "nil", Not(Eq(x.T, IntLit(0))))
		if _, isStruct := f.Type().Underlying().(*types.Struct); isStruct {
			ex.setVal(st, in, SVal{Val: Val{T: x.T, Typ: in.Type()}})
			return false
		}
		srt := u.sortOf(f.Type())
		fc.declSort(srt)
		ex.setVal(st, in, SVal{HAddr: &HeapAddr{ref: x.T, key: u.fieldKey(stT, f), sort: srt, typ: f.Type()}, Val: Val{Typ: in.Type()}})
	case *ssa.IndexAddr:
		x := ex.val(st, in.X)
		idx := ex.val(st, in.Index).T
		if x.Arr != nil {
			n, ok := isIntLit(idx)
			if !ok {
				ex.unsupported(st, "non-constant index into local array")
			}
			ex.setVal(st, in, SVal{IAddr: &IndexAddr{cell: x.Arr, ci: int(n)}, Val: Val{Typ: in.Type()}})
			return false
		}
		var seq Val
		if x.HAddr != nil || x.Loc != nil {
			// pointer to array (e.g. global array)
			seq = ex.load(st, in, x).Val
		} else {
			seq = x.Val
		}
		if seq.T == nil || !seq.T.Sort.IsSeq() {
			ex.unsupported(st, "IndexAddr on %T value", in.X)
		}
		ex.check(st, in, "index", And(Ge(idx, IntLit(0)), Lt(idx, SeqLen(seq.T))))
		ex.setVal(st, in, SVal{IAddr: &IndexAddr{seq: seq, idx: idx}, Val: Val{Typ: in.Type()}})
	case *ssa.Index:
		x := ex.val(st, in.X)
		idx := ex.val(st, in.Index).T
		ex.check(st, in, "index", And(Ge(idx, IntLit(0)), Lt(idx, SeqLen(x.T))))
		ex.setVal(st, in, SVal{Val: Val{T: fc.elemGet(x.T, idx, in.Type()), Typ: in.Type()}})
	case *ssa.Field:
		x := ex.val(st, in.X)
		stT, s := derefStruct(in.X.Type())
		f := s.Field(in.Field)
		ex.setVal(st, in, SVal{Val: Val{T: fc.structField(x.T, stT, f), Typ: f.Type()}})
	case *ssa.UnOp:
		ex.unop(st, in)
	case *ssa.BinOp:
		ex.binop(st, in)
	case *ssa.Store:
		ex.store(st, in, ex.val(st, in.Addr), ex.val(st, in.Val))
	case *ssa.Phi:
		for i, p := range fr.block.Preds {
			if p == fr.prev {
				ex.setVal(st, in, ex.val(st, in.Edges[i]))
				return false
			}
		}
		ex.unsupported(st, "phi without matching predecessor")
	case *ssa.Extract:
		t := ex.val(st, in.Tuple)
		if in.Index >= len(t.Tuple) {
			ex.unsupported(st, "extract %d of %d-tuple", in.Index, len(t.Tuple))
		}
		ex.setVal(st, in, SVal{Val: t.Tuple[in.Index]})
	case *ssa.ChangeType:
		x := ex.val(st, in.X)
		x.Typ = in.Type()
		from, to := u.sortOf(in.X.Type()), u.sortOf(in.Type())
		if from != to && x.T != nil {
			x.T = ex.convertSort(x.T, from, to)
		}
		ex.setVal(st, in, x)
	case *ssa.ChangeInterface:
		x := ex.val(st, in.X)
		x.Typ = in.Type()
		ex.setVal(st, in, x)
	case *ssa.Convert:
		ex.convert(st, in)
	case *ssa.MakeInterface:
		x := ex.val(st, in.X)
		if x.T == nil {
			ex.unsupported(st, "MakeInterface of address value")
		}
		ex.setVal(st, in, SVal{Val: Val{T: fc.anyWrap(x.T, in.X.Type()), Typ: in.Type()}})
	case *ssa.TypeAssert:
		ex.typeAssert(st, in)
	case *ssa.MakeClosure:
		fn := in.Fn.(*ssa.Function)
		var bs []SVal
		for _, b := range in.Bindings {
			bs = append(bs, ex.val(st, b))
		}
		name := u.displayName(fn)
		recv := IntLit(0)
		if strings.HasSuffix(name, "$bound") && len(bs) == 1 && bs[0].T != nil {
			name = strings.TrimSuffix(name, "$bound")
			recv = bs[0].T
			if bs[0].T.Sort == SAny {
				recv = App(SInt, "a_ref_v", bs[0].T)
			}
		}
		ex.setVal(st, in, SVal{Val: Val{T: App(SFn, "mk_fn", IntLit(int64(u.funcID(name))), recv), Typ: in.Type()}, Closure: &ClosureInfo{fn: fn, bindings: bs}})
	case *ssa.MakeMap:
		mt := in.Type().Underlying().(*types.Map)
		ref := st.alloc()
		st.allocOff++
		vk, dk, vs, ds := fc.mapKeys(mt)
		_ = vk
		_ = vs
		st.heap = st.heap.store(dk, ref, &Term{fmt.Sprintf("((as const %s) false)", ds), ds})
		ex.setVal(st, in, SVal{Val: Val{T: ref, Typ: in.Type()}})
	case *ssa.MakeSlice:
		n := ex.val(st, in.Len).T
		s := u.sortOf(in.Type())
		fc.declSort(s)
		v := fc.d.Fresh("mkslice", s)
		st.assume(Eq(SeqLen(v), n))
		ex.check(st, in, "makeslice", Ge(n, IntLit(0)))
		ex.setVal(st, in, SVal{Val: Val{T: v, Typ: in.Type()}})
	case *ssa.MapUpdate:
		m := ex.val(st, in.Map)
		k := ex.val(st, in.Key).T
		v := ex.val(st, in.Value).T
		mt := in.Map.Type().Underlying().(*types.Map)
		ex.check(st, in, "nilmap", Not(Eq(m.T, IntLit(0))))
		ex.frameCheckMap(st, in, m.T, mt)
		vk, dk, vs, ds := fc.mapKeys(mt)
		ov := st.heap.read(fc.d, vk, vs, m.T)
		od := st.heap.read(fc.d, dk, ds, m.T)
		st.heap = st.heap.store(vk, m.T, Store(ov, k, v))
		st.heap = st.heap.store(dk, m.T, Store(od, k, TTrue))
	case *ssa.Lookup:
		x := ex.val(st, in.X)
		idx := ex.val(st, in.Index).T
		if mt, ok := in.X.Type().Underlying().(*types.Map); ok {
			v := fc.mapLookup(st.heap, mt, x.T, idx)
			if in.CommaOk {
				ex.setVal(st, in, SVal{Val: Val{Tuple: []Val{{T: v, Typ: mt.Elem()}, {T: fc.mapHas(st.heap, mt, x.T, idx), Typ: types.Typ[types.Bool]}}}})
			} else {
				ex.setVal(st, in, SVal{Val: Val{T: v, Typ: mt.Elem()}})
			}
			st.assume(fc.wellFormed(v, mt.Elem(), st.alloc()))
			return false
		}
		// string index
		ex.check(st, in, "index", And(Ge(idx, IntLit(0)), Lt(idx, SeqLen(x.T))))
		ex.setVal(st, in, SVal{Val: Val{T: SeqNth(x.T, idx), Typ: in.Type()}})
	case *ssa.Slice:
		ex.slice(st, in)
	case *ssa.Range:
		x := ex.val(st, in.X)
		it := &IterInfo{m: x}
		if mt, ok := in.X.Type().Underlying().(*types.Map); ok {
			it.mt = mt
			ks := u.sortOf(mt.Key())
			fc.declSort(ks)
			as := ArrOf(ks, SBool)
			it.visited = &Term{fmt.Sprintf("((as const %s) false)", as), as}
		} else {
			it.isStr = true
		}
		ex.setVal(st, in, SVal{Iter: it})
	case *ssa.Next:
		it := ex.val(st, in.Iter).Iter
		ok := fc.d.Fresh("rng_ok", SBool)
		if it.isStr {
			ex.unsupported(st, "range over string")
		}
		k := fc.freshOf("rng_k", it.mt.Key())
		v := fc.mapLookup(st.heap, it.mt, it.m.T, k)
		st.assume(Implies(ok, And(fc.mapHas(st.heap, it.mt, it.m.T, k), Not(Select(it.visited, k)))))
		// exhausted: every key of the map has been visited
		fc.qn++
		qk := &Term{fmt.Sprintf("k!q%d", fc.qn), k.Sort}
		st.assume(Implies(Not(ok), &Term{fmt.Sprintf("(forall ((%s %s)) %s)", qk.S, qk.Sort, Implies(fc.mapHas(st.heap, it.mt, it.m.T, qk), Select(it.visited, qk)).S), SBool}))
		it.visited = Ite(ok, Store(it.visited, k, TTrue), it.visited)
		ex.setVal(st, in, SVal{Val: Val{Tuple: []Val{{T: ok, Typ: types.Typ[types.Bool]}, {T: k, Typ: it.mt.Key()}, {T: v, Typ: it.mt.Elem()}}}})
	case *ssa.Defer:
		fnv := ex.val(st, in.Call.Value)
		var args []SVal
		for _, a := range in.Call.Args {
			args = append(args, ex.val(st, a))
		}
		fr.defers = append(fr.defers, deferred{call: in, fn: fnv, args: args})
	case *ssa.RunDefers:
		if len(fr.defers) > 0 {
			d := fr.defers[len(fr.defers)-1]
			fr.defers = fr.defers[:len(fr.defers)-1]
			fr.idx-- // re-execute rundefers after the deferred call returns
			ex.pushDeferred(st, d)
		}
	case *ssa.Call:
		return ex.call(st, fr, in)
	case *ssa.Go, *ssa.Send, *ssa.Select:
		ex.unsupported(st, "concurrency construct %T outside the verified subset", in)
	default:
		ex.unsupported(st, "instruction %T (%s)", in, in)
	}
	return false
}

func (ex *Exec) zeroFor(t types.Type) *Term {
	if _, ok := t.Underlying().(*types.Struct); ok {
		return nil
	}
	return ex.fc.zeroOf(t)
}

// allocObject allocates a fresh heap object of type et, zero-initialised.
func (ex *Exec) allocObject(st *State, et types.Type) *Term {
	fc := ex.fc
	u := ex.u
	ref := st.alloc()
	st.allocOff++
	if s, ok := et.Underlying().(*types.Struct); ok {
		var walk func(stT types.Type, s *types.Struct)
		walk = func(stT types.Type, s *types.Struct) {
			for i := 0; i < s.NumFields(); i++ {
				f := s.Field(i)
				if fs, ok := f.Type().Underlying().(*types.Struct); ok {
					if f.Type().(*types.Named) != nil && f.Type().(*types.Named).Obj().Pkg() == u.tpkg {
						walk(f.Type(), fs)
					}
					continue
				}
				srt := u.sortOf(f.Type())
				fc.declSort(srt)
				st.heap = st.heap.store(u.fieldKey(stT, f), ref, fc.zeroOfSort(srt))
			}
		}
		if n, ok := et.(*types.Named); ok && n.Obj().Pkg() == u.tpkg {
			walk(et, s)
		}
		// ghost fields start at the zero value of their sort (zero-value objects)
		owner := u.typeName(et)
		for _, k := range sortedKeys(u.ghosts) {
			g := u.ghosts[k]
			if g.Owner != owner {
				continue
			}
			gs, _, err := u.specSort(g.Type)
			if err != nil {
				panic(engineError{err.Error()})
			}
			fc.declSort(gs)
			st.heap = st.heap.store("ghost:"+owner+"."+g.Name, ref, fc.zeroOfSort(gs))
		}
		return ref
	}
	srt := u.sortOf(et)
	fc.declSort(srt)
	st.heap = st.heap.store("cell:"+u.typeName(et), ref, fc.zeroOfSort(srt))
	return ref
}

func (ex *Exec) load(st *State, in ssa.Instruction, a SVal) SVal {
	fc := ex.fc
	u := ex.u
	switch {
	case a.Loc != nil:
		return ex.loadLocal(st, a.Loc.alloc, a.Loc.path, a.Loc.typ)
	case a.HAddr != nil:
		v := st.heap.read(fc.d, a.HAddr.key, a.HAddr.sort, a.HAddr.ref)
		st.assume(fc.wellFormed(v, a.HAddr.typ, st.alloc()))
		st.assume(fc.typeInvariant(v, a.HAddr.typ))
		st.assume(fc.objInvFact(st.heap, st.alloc(), v, a.HAddr.typ))
		if strings.HasPrefix(a.HAddr.key, "global:") && !strings.Contains(a.HAddr.key[7:], ".") {
			for _, f := range fc.globalAssumptions(st.heap, a.HAddr.key[7:], v) {
				st.assume(f)
			}
		}
		return SVal{Val: Val{T: v, Typ: a.HAddr.typ}}
	case a.IAddr != nil:
		if a.IAddr.cell != nil {
			return SVal{Val: a.IAddr.cell.elems[a.IAddr.ci]}
		}
		var et types.Type
		if a.IAddr.seq.Typ != nil {
			switch bt := a.IAddr.seq.Typ.Underlying().(type) {
			case *types.Slice:
				et = bt.Elem()
			case *types.Array:
				et = bt.Elem()
			case *types.Pointer:
				if at, ok := bt.Elem().Underlying().(*types.Array); ok {
					et = at.Elem()
				}
			}
		}
		v := fc.elemGet(a.IAddr.seq.T, a.IAddr.idx, et)
		st.assume(fc.wellFormed(v, et, st.alloc()))
		st.assume(fc.typeInvariant(v, et))
		st.assume(fc.objInvFact(st.heap, st.alloc(), v, et))
		return SVal{Val: Val{T: v, Typ: et}}
	case a.T != nil:
		// pointer to a heap cell or struct object
		pt, ok := a.Typ.Underlying().(*types.Pointer)
		if !ok {
			ex.unsupported(st, "load through non-pointer")
		}
		ex.check(st, in, "nil", Not(Eq(a.T, IntLit(0))))
		et := pt.Elem()
		if s, isStruct := et.Underlying().(*types.Struct); isStruct {
			// load of a whole struct value from the heap
			srt := u.sortOf(et)
			fc.declSort(srt)
			sv := fc.d.Fresh("struct", srt)
			if n, ok := et.(*types.Named); ok && n.Obj().Pkg() == u.tpkg {
				for i := 0; i < s.NumFields(); i++ {
					f := s.Field(i)
					if _, nested := f.Type().Underlying().(*types.Struct); nested {
						continue
					}
					st.assume(Eq(fc.structField(sv, et, f), fc.readField(st.heap, st.alloc(), et, f, a.T, nil)))
				}
			} else {
				// external struct: value is a function of the heap object (ghost)
				gs := "ghost:" + u.typeName(et) + ".$value"
				return SVal{Val: Val{T: st.heap.read(fc.d, gs, srt, a.T), Typ: et}}
			}
			return SVal{Val: Val{T: sv, Typ: et}}
		}
		srt := u.sortOf(et)
		fc.declSort(srt)
		v := st.heap.read(fc.d, "cell:"+u.typeName(et), srt, a.T)
		st.assume(fc.wellFormed(v, et, st.alloc()))
		return SVal{Val: Val{T: v, Typ: et}}
	}
	ex.unsupported(st, "load from unsupported address")
	return SVal{}
}

func (ex *Exec) store(st *State, in ssa.Instruction, a SVal, v SVal) {
	fc := ex.fc
	u := ex.u
	switch {
	case a.Loc != nil:
		k := localKey(a.Loc.alloc, a.Loc.path)
		if v.T != nil && isStructSort(v.T.Sort) {
			// struct value into local: keep the value, clear field cells
			for key := range st.top().locals {
				if strings.HasPrefix(key, k+".") {
					delete(st.top().locals, key)
				}
			}
		}
		st.top().locals[k] = v
	case a.HAddr != nil:
		if v.T == nil {
			ex.unsupported(st, "store of address value into heap")
		}
		ex.frameCheck(st, in, a.HAddr.key, a.HAddr.ref)
		if tn, ok := u.objinvFields[a.HAddr.key]; ok {
			st.touched = append(st.touched, touched{tn, a.HAddr.ref})
		}
		val := v.T
		if len(val.S) > 300 {
			n := fc.d.Fresh("sv", val.Sort)
			st.assume(Eq(n, val))
			if val.Sort.IsSeq() {
				termDefs[n.S] = val
			}
			val = n
		}
		st.heap = st.heap.store(a.HAddr.key, a.HAddr.ref, val)
	case a.IAddr != nil:
		if a.IAddr.cell != nil {
			a.IAddr.cell.elems[a.IAddr.ci] = v.Val
			return
		}
		ex.unsupported(st, "store through slice element (outside the verified subset: slices are value sequences)")
	case a.T != nil:
		pt := a.Typ.Underlying().(*types.Pointer)
		et := pt.Elem()
		ex.check(st, in, "nil", Not(Eq(a.T, IntLit(0))))
		if _, isStruct := et.Underlying().(*types.Struct); isStruct {
			ex.unsupported(st, "store of whole struct through pointer")
		}
		key := "cell:" + u.typeName(et)
		ex.frameCheck(st, in, key, a.T)
		st.heap = st.heap.store(key, a.T, v.T)
	default:
		ex.unsupported(st, "store to unsupported address")
	}
}

func isStructSort(s Sort) bool { return strings.HasPrefix(string(s), "U_") }

// frameCheck: the written location is fresh or inside the assigns clause of the root function.
func (ex *Exec) frameCheck(st *State, in ssa.Instruction, key string, ref *Term) {
	fc := ex.fc
	if fc.assignAll || fc.contract == nil {
		return
	}
	if strings.HasPrefix(key, "cell:") && false {
		return
	}
	ok := []*Term{Ge(ref, fc.entryAlloc)}
	for _, l := range fc.assignSet {
		if l.isMap || l.key != key {
			continue
		}
		if l.ref == nil {
			return
		}
		ok = append(ok, refEq(ref, l.ref))
	}
	goal := Or(ok...)
	if goal.S == "true" {
		return
	}
	fc.emit(st, "frame", fc.siteFor(in, "store"), "write to "+key+" is inside the assigns clause (or to a fresh object) at "+ex.posOf(in), []string{"FRAME"}, goal)
}

func (ex *Exec) frameCheckMap(st *State, in ssa.Instruction, ref *Term, mt *types.Map) {
	fc := ex.fc
	if fc.assignAll || fc.contract == nil {
		return
	}
	ok := []*Term{Ge(ref, fc.entryAlloc)}
	for _, l := range fc.assignSet {
		if l.isMap && types.Identical(l.mapTyp, mt) {
			ok = append(ok, refEq(ref, l.ref))
		}
	}
	fc.emit(st, "frame", fc.siteFor(in, "mapstore"), "map update is inside the assigns clause (or to a fresh map) at "+ex.posOf(in), []string{"FRAME"}, Or(ok...))
}

func (ex *Exec) unop(st *State, in *ssa.UnOp) {
	fc := ex.fc
	x := ex.val(st, in.X)
	switch in.Op {
	case token.MUL:
		if in.CommaOk {
			ex.unsupported(st, "comma-ok load")
		}
		ex.setVal(st, in, ex.load(st, in, x))
	case token.NOT:
		ex.setVal(st, in, SVal{Val: Val{T: Not(x.T), Typ: in.Type()}})
	case token.SUB:
		if x.T.Sort == SF64 {
			fc.d.Fun("f64_neg", []Sort{SF64}, SF64)
			ex.setVal(st, in, SVal{Val: Val{T: App(SF64, "f64_neg", x.T), Typ: in.Type()}})
			return
		}
		ex.setVal(st, in, SVal{Val: Val{T: Neg(x.T), Typ: in.Type()}})
	case token.XOR:
		if x.T.Sort == SBV {
			ex.setVal(st, in, SVal{Val: Val{T: App(SBV, "bvnot", x.T), Typ: in.Type()}})
			return
		}
		ex.setVal(st, in, SVal{Val: Val{T: Sub(Neg(x.T), IntLit(1)), Typ: in.Type()}})
	default:
		ex.unsupported(st, "unary operator %s", in.Op)
	}
}

func (ex *Exec) binop(st *State, in *ssa.BinOp) {
	fc := ex.fc
	x := ex.val(st, in.X)
	y := ex.val(st, in.Y)
	tb := types.Typ[types.Bool]
	set := func(t *Term, ty types.Type) { ex.setVal(st, in, SVal{Val: Val{T: t, Typ: ty}}) }
	if x.T == nil || y.T == nil {
		ex.unsupported(st, "binary operator on address values")
	}
	a, b := x.T, y.T
	// nil constants take the sort of the other operand
	if a.Sort != b.Sort {
		if isNilConst(in.X) {
			a = nilOf(b.Sort)
		} else if isNilConst(in.Y) {
			b = nilOf(a.Sort)
		}
	}
	switch {
	case a.Sort == SAny:
		switch in.Op {
		case token.EQL, token.NEQ:
			if !(a.S == "a_nil" || b.S == "a_nil") {
				ex.check(st, in, "ifaceeq", Not(fc.ifaceEqPanics(a, b)))
			}
			e := Eq(a, b)
			if in.Op == token.NEQ {
				e = Not(e)
			}
			set(e, tb)
			return
		}
	case a.Sort == SBool:
		switch in.Op {
		case token.EQL:
			set(Eq(a, b), tb)
			return
		case token.NEQ:
			set(Not(Eq(a, b)), tb)
			return
		}
	case a.Sort == SBV:
		switch in.Op {
		case token.OR:
			set(App(SBV, "bvor", a, b), in.Type())
		case token.AND:
			set(App(SBV, "bvand", a, b), in.Type())
		case token.XOR:
			set(App(SBV, "bvxor", a, b), in.Type())
		case token.AND_NOT:
			set(App(SBV, "bvand", a, App(SBV, "bvnot", b)), in.Type())
		case token.EQL:
			set(Eq(a, b), tb)
		case token.NEQ:
			set(Not(Eq(a, b)), tb)
		default:
			ex.unsupported(st, "bit-vector operator %s", in.Op)
		}
		return
	case a.Sort.IsSeq():
		switch in.Op {
		case token.ADD:
			set(SeqConcat(a, b), in.Type())
		case token.EQL:
			set(Eq(a, b), tb)
		case token.NEQ:
			set(Not(Eq(a, b)), tb)
		case token.LSS:
			set(fc.strLess(a, b), tb)
		case token.GTR:
			set(fc.strLess(b, a), tb)
		case token.LEQ:
			set(Or(Eq(a, b), fc.strLess(a, b)), tb)
		case token.GEQ:
			set(Or(Eq(a, b), fc.strLess(b, a)), tb)
		default:
			ex.unsupported(st, "string operator %s", in.Op)
		}
		return
	case a.Sort == SF64:
		name := map[token.Token]string{token.ADD: "f64_add", token.SUB: "f64_sub", token.MUL: "f64_mul", token.QUO: "f64_div"}[in.Op]
		if name != "" {
			fc.d.Fun(name, []Sort{SF64, SF64}, SF64)
			set(App(SF64, name, a, b), in.Type())
			return
		}
		cmpn := map[token.Token]string{token.LSS: "f64_lt", token.LEQ: "f64_le", token.EQL: "f64_eq"}
		switch in.Op {
		case token.LSS, token.LEQ, token.EQL:
			fc.d.Fun(cmpn[in.Op], []Sort{SF64, SF64}, SBool)
			set(App(SBool, cmpn[in.Op], a, b), tb)
		case token.GTR:
			fc.d.Fun("f64_lt", []Sort{SF64, SF64}, SBool)
			set(App(SBool, "f64_lt", b, a), tb)
		case token.GEQ:
			fc.d.Fun("f64_le", []Sort{SF64, SF64}, SBool)
			set(App(SBool, "f64_le", b, a), tb)
		case token.NEQ:
			fc.d.Fun("f64_eq", []Sort{SF64, SF64}, SBool)
			set(Not(App(SBool, "f64_eq", a, b)), tb)
		default:
			ex.unsupported(st, "float operator %s", in.Op)
		}
		return
	case a.Sort == SFn:
		switch in.Op {
		case token.EQL:
			set(Eq(a, b), tb)
			return
		case token.NEQ:
			set(Not(Eq(a, b)), tb)
			return
		}
	case isStructSort(a.Sort):
		switch in.Op {
		case token.EQL:
			set(Eq(a, b), tb)
			return
		case token.NEQ:
			set(Not(Eq(a, b)), tb)
			return
		}
	}
	if a.Sort != SInt || b.Sort != SInt {
		ex.unsupported(st, "binary operator %s on sorts %s,%s", in.Op, a.Sort, b.Sort)
	}
	switch in.Op {
	case token.ADD:
		set(Add(a, b), in.Type())
	case token.SUB:
		set(Sub(a, b), in.Type())
	case token.MUL:
		set(Mul(a, b), in.Type())
	case token.QUO:
		ex.check(st, in, "div", Not(Eq(b, IntLit(0))))
		set(GoQuo(a, b), in.Type())
	case token.REM:
		ex.check(st, in, "div", Not(Eq(b, IntLit(0))))
		set(GoRem(a, b), in.Type())
	case token.EQL:
		set(Eq(a, b), tb)
	case token.NEQ:
		set(Not(Eq(a, b)), tb)
	case token.LSS:
		set(Lt(a, b), tb)
	case token.LEQ:
		set(Le(a, b), tb)
	case token.GTR:
		set(Gt(a, b), tb)
	case token.GEQ:
		set(Ge(a, b), tb)
	case token.SHR:
		if n, ok := isIntLit(b); ok && n >= 0 && n < 62 {
			set(App(SInt, "div", a, IntLit(1<<uint(n))), in.Type())
			return
		}
		fc.d.Fun("int_shr", []Sort{SInt, SInt}, SInt)
		set(App(SInt, "int_shr", a, b), in.Type())
	case token.SHL:
		if n, ok := isIntLit(b); ok && n >= 0 && n < 62 {
			set(Mul(a, IntLit(1<<uint(n))), in.Type())
			return
		}
		fc.d.Fun("int_shl", []Sort{SInt, SInt}, SInt)
		set(App(SInt, "int_shl", a, b), in.Type())
	case token.AND, token.OR, token.XOR, token.AND_NOT:
		name := map[token.Token]string{token.AND: "int_and", token.OR: "int_or", token.XOR: "int_xor", token.AND_NOT: "int_andnot"}[in.Op]
		fc.d.Fun(name, []Sort{SInt, SInt}, SInt)
		set(App(SInt, name, a, b), in.Type())
	default:
		ex.unsupported(st, "integer operator %s", in.Op)
	}
}

func isNilConst(v ssa.Value) bool {
	c, ok := v.(*ssa.Const)
	return ok && c.Value == nil
}

// ifaceEqPanics: comparing two interface values panics when their dynamic types are
// identical and not comparable.
func (fc *FuncCtx) ifaceEqPanics(a, b *Term) *Term {
	return And(Eq(fc.anyTypeID(a), fc.anyTypeID(b)), Not(fc.comparableAny(a)))
}

// comparableAny: the dynamic type of a is comparable with == (nil, booleans, strings,
// numbers, pointers always; functions and maps never; other kinds per known_comparable).
func (fc *FuncCtx) comparableAny(a *Term) *Term {
	is := func(c string, x *Term) *Term { return &Term{"((_ is " + c + ") " + x.S + ")", SBool} }
	fc.d.Fun("known_comparable", []Sort{SInt}, SBool)
	fc.d.Fun("is_map_type", []Sort{SInt}, SBool)
	return Or(is("a_nil", a), is("a_bool", a), is("a_str", a), is("a_int", a), is("a_f64", a),
		And(is("a_ref", a), Not(App(SBool, "is_map_type", App(SInt, "a_ref_ty", a)))),
		And(is("a_oth", a), App(SBool, "known_comparable", App(SInt, "a_oth_ty", a))))
}

func (ex *Exec) convertSort(t *Term, from, to Sort) *Term {
	if from == to {
		return t
	}
	if from == SInt && to == SBV {
		if n, ok := isIntLit(t); ok {
			return BVLit(uint64(n))
		}
		return App(SBV, "(_ int2bv 64)", t)
	}
	if from == SBV && to == SInt {
		return App(SInt, "bv2nat", t)
	}
	panic(engineError{fmt.Sprintf("conversion between sorts %s and %s", from, to)})
}

func (ex *Exec) convert(st *State, in *ssa.Convert) {
	fc := ex.fc
	u := ex.u
	x := ex.val(st, in.X)
	from, to := in.X.Type().Underlying(), in.Type().Underlying()
	fs, ts := u.sortOf(in.X.Type()), u.sortOf(in.Type())
	set := func(t *Term) { ex.setVal(st, in, SVal{Val: Val{T: t, Typ: in.Type()}}) }
	fb, fIsB := from.(*types.Basic)
	tbb, tIsB := to.(*types.Basic)
	switch {
	case fs == SInt && ts == SInt && tIsB:
		// integer conversions: wrap for narrowing / unsigned targets
		set(wrapInt(x.T, tbb.Kind(), fIsB, fb))
	case fs == SInt && ts == SF64:
		fc.d.Fun("i2f", []Sort{SInt}, SF64)
		set(App(SF64, "i2f", x.T))
	case fs == SF64 && ts == SInt:
		fc.d.Fun("f2i", []Sort{SF64}, SInt)
		set(App(SInt, "f2i", x.T))
	case fs == SF64 && ts == SF64:
		if fIsB && tIsB && fb.Kind() == types.Float64 && tbb.Kind() == types.Float32 {
			fc.d.Fun("f64_to_f32", []Sort{SF64}, SF64)
			set(App(SF64, "f64_to_f32", x.T))
		} else {
			set(x.T)
		}
	case fs == SStr && ts == SStr:
		set(x.T) // string <-> []byte
	case fs == SInt && ts == SStr:
		// string(rune)
		fc.d.Fun("utf8_enc", []Sort{SInt}, SStr)
		r := App(SStr, "utf8_enc", x.T)
		fc.addAxiom(Implies(And(Ge(x.T, IntLit(0)), Lt(x.T, IntLit(128))), Eq(r, SeqUnit(x.T))))
		fc.addAxiom(And(Ge(SeqLen(r), IntLit(1)), Le(SeqLen(r), IntLit(4))))
		set(r)
	case fs.IsSeq() && ts == SStr && fs != SStr:
		// string([]rune)
		fc.d.Fun("runes_enc", []Sort{fs}, SStr)
		r := App(SStr, "runes_enc", x.T)
		fc.addAxiom(Implies(Eq(SeqLen(x.T), IntLit(0)), Eq(r, SeqEmpty(SStr))))
		if c, ok := ex.u.contracts["conv.runesToString"]; ok {
			env := &Env{fc: fc, heap: st.heap, oldHeap: st.heap, alloc: st.alloc(), oldAlloc: st.alloc(), side: &st.pc,
				vars: map[string]Val{"v": {T: x.T, Typ: in.X.Type()}, "result": {T: r, Typ: in.Type()}}}
			for _, e := range c.Ensures {
				st.assume(env.evalBool(e.E))
			}
		}
		set(r)
	case fs == SStr && ts.IsSeq() && ts != SStr:
		fc.d.Fun("runes_dec", []Sort{SStr}, ts)
		set(App(ts, "runes_dec", x.T))
	case fs == ts:
		set(x.T)
	case (fs == SInt && ts == SBV) || (fs == SBV && ts == SInt):
		set(ex.convertSort(x.T, fs, ts))
	default:
		ex.unsupported(st, "conversion %s -> %s", u.typeName(in.X.Type()), u.typeName(in.Type()))
	}
}

func (fc *FuncCtx) addAxiom(t *Term) {
	if t.S == "true" || fc.unfolded[t.S] {
		return
	}
	fc.unfolded[t.S] = true
	fc.axioms = append(fc.axioms, t)
}

func wrapInt(t *Term, to types.BasicKind, fromBasic bool, from *types.Basic) *Term {
	bits := map[types.BasicKind]int{types.Int8: 8, types.Int16: 16, types.Int32: 32, types.Uint8: 8, types.Uint16: 16, types.Uint32: 32, types.Uint64: 64, types.Uint: 64, types.Uintptr: 64}
	n, narrow := bits[to]
	if !narrow {
		// to int / int64: identity unless coming from uint64 (wrap)
		if fromBasic && (from.Kind() == types.Uint64 || from.Kind() == types.Uint || from.Kind() == types.Uintptr) {
			two63 := BigIntLit("9223372036854775808")
			two64 := BigIntLit("18446744073709551616")
			return Ite(Ge(t, two63), Sub(t, two64), t)
		}
		return t
	}
	if v, ok := isIntLit(t); ok {
		switch to {
		case types.Uint8:
			if v >= 0 && v < 256 {
				return t
			}
		case types.Int32:
			if v >= -2147483648 && v <= 2147483647 {
				return t
			}
		}
	}
	pow := func(k int) *Term {
		s := "1"
		v := []int{1}
		for i := 0; i < k; i++ {
			carry := 0
			for j := range v {
				x := v[j]*2 + carry
				v[j] = x % 10
				carry = x / 10
			}
			if carry > 0 {
				v = append(v, carry)
			}
		}
		s = ""
		for j := len(v) - 1; j >= 0; j-- {
			s += fmt.Sprint(v[j])
		}
		return BigIntLit(s)
	}
	unsigned := to == types.Uint8 || to == types.Uint16 || to == types.Uint32 || to == types.Uint64 || to == types.Uint || to == types.Uintptr
	m := pow(n)
	if unsigned {
		// source types that are already narrower unsigned need no wrap
		if fromBasic && (from.Kind() == types.Uint8) {
			return t
		}
		return App(SInt, "mod", t, m)
	}
	half := pow(n - 1)
	return Sub(App(SInt, "mod", Add(t, half), m), half)
}

func (ex *Exec) typeAssert(st *State, in *ssa.TypeAssert) {
	fc := ex.fc
	x := ex.val(st, in.X)
	at := in.AssertedType
	var ok, val *Term
	if _, isIface := at.Underlying().(*types.Interface); isIface {
		ok = fc.implements(x.T, at)
		val = x.T
	} else {
		ok = fc.anyIs(x.T, at)
		val = fc.anyUnwrap(x.T, at)
	}
	if in.CommaOk {
		z := fc.zeroOf(at)
		ex.setVal(st, in, SVal{Val: Val{Tuple: []Val{{T: Ite(ok, val, z), Typ: at}, {T: ok, Typ: types.Typ[types.Bool]}}}})
		return
	}
	ex.check(st, in, "typeassert", ok)
	ex.setVal(st, in, SVal{Val: Val{T: val, Typ: at}})
}

// implements: dynamic type of a satisfies interface type it.
func (fc *FuncCtx) implements(a *Term, it types.Type) *Term {
	u := fc.u
	iface := it.Underlying().(*types.Interface)
	if iface.NumMethods() == 0 {
		return Not(Eq(a, &Term{"a_nil", SAny}))
	}
	// known concrete types of the package
	var ids []*Term
	scope := u.tpkg.Scope()
	for _, n := range scope.Names() {
		tn, ok := scope.Lookup(n).(*types.TypeName)
		if !ok {
			continue
		}
		for _, t := range []types.Type{tn.Type(), types.NewPointer(tn.Type())} {
			if _, isI := t.Underlying().(*types.Interface); isI {
				continue
			}
			if named, ok := tn.Type().(*types.Named); ok && named.TypeParams().Len() > 0 {
				continue
			}
			if types.Implements(t, iface) {
				ids = append(ids, Eq(fc.anyTypeID(a), IntLit(int64(u.typeID(t)))))
			}
		}
	}
	name := "implements_" + sanitize(u.typeName(it))
	fc.d.Fun(name, []Sort{SInt}, SBool)
	if fc.implFuns == nil {
		fc.implFuns = map[string]*types.Interface{}
	}
	fc.implFuns[name] = iface
	ext := App(SBool, name, fc.anyTypeID(a))
	inPkg := false
	if n, ok := it.(*types.Named); ok && n.Obj().Pkg() == u.tpkg {
		inPkg = true
	}
	if inPkg {
		// interfaces with unexported methods can only be implemented inside the package
		for i := 0; i < iface.NumMethods(); i++ {
			if !iface.Method(i).Exported() {
				return And(Not(Eq(a, &Term{"a_nil", SAny})), Or(ids...))
			}
		}
	}
	return And(Not(Eq(a, &Term{"a_nil", SAny})), Or(append(ids, ext)...))
}

func (ex *Exec) slice(st *State, in *ssa.Slice) {
	x := ex.val(st, in.X)
	var seq *Term
	if x.Arr != nil {
		// slice of local array cell: build sequence from elements
		s := ex.u.sortOf(in.Type())
		ex.fc.declSort(s)
		seq = SeqEmpty(s)
		for _, e := range x.Arr.elems {
			seq = SeqConcat(seq, SeqUnit(ex.fc.elemPut(e.T, e.Typ)))
		}
		if len(x.Arr.elems) > 1 {
			var parts []*Term
			for _, e := range x.Arr.elems {
				parts = append(parts, SeqUnit(ex.fc.elemPut(e.T, e.Typ)))
			}
			seq = App(s, "seq.++", parts...)
		}
	} else if x.HAddr != nil || x.Loc != nil {
		seq = ex.load(st, in, x).T
	} else {
		seq = x.T
	}
	if seq == nil || !seq.Sort.IsSeq() {
		ex.unsupported(st, "slice of non-sequence")
	}
	lo := IntLit(0)
	if in.Low != nil {
		lo = ex.val(st, in.Low).T
	}
	hi := SeqLen(seq)
	if in.High != nil {
		hi = ex.val(st, in.High).T
	}
	if in.Max != nil {
		ex.unsupported(st, "3-index slice")
	}
	if in.Low != nil || in.High != nil {
		ex.check(st, in, "slice", And(Ge(lo, IntLit(0)), Le(lo, hi), Le(hi, SeqLen(seq))))
	}
	if in.Low == nil && in.High == nil {
		ex.setVal(st, in, SVal{Val: Val{T: seq, Typ: in.Type()}})
		return
	}
	ex.setVal(st, in, SVal{Val: Val{T: SeqSlice(seq, lo, hi), Typ: in.Type()}})
}

// loadLocal reads a local cell (or a field path inside a struct-valued local). A struct-valued
// local is represented by an optional whole value (the last whole-struct store) overlaid by
// per-field cells written since; a read combines the two.
func (ex *Exec) loadLocal(st *State, alloc *ssa.Alloc, path string, typ types.Type) SVal {
	fc := ex.fc
	u := ex.u
	locals := st.top().locals
	k := localKey(alloc, path)
	v, has := locals[k]
	hasVal := has && (v.T != nil || v.Arr != nil || v.Closure != nil || v.Tuple != nil)
	s, isStruct := typ.Underlying().(*types.Struct)
	if !isStruct {
		if hasVal {
			return v
		}
		// no cell of its own: the value comes from a whole-struct value of an enclosing path
		if i := strings.LastIndex(path, "."); i >= 0 {
			ppath, fname := path[:i], path[i+1:]
			pt := pathType(alloc, ppath)
			if pt != nil {
				if ps, ok := pt.Underlying().(*types.Struct); ok {
					pv := ex.loadLocal(st, alloc, ppath, pt)
					for j := 0; j < ps.NumFields(); j++ {
						if ps.Field(j).Name() == fname && pv.T != nil && isStructSort(pv.T.Sort) {
							return SVal{Val: Val{T: fc.structField(pv.T, pt, ps.Field(j)), Typ: typ}}
						}
					}
				}
			}
		}
		return SVal{Val: Val{T: fc.zeroOf(typ), Typ: typ}}
	}
	// struct-valued: any field cells below this path?
	overlay := false
	for key, fv := range locals {
		if strings.HasPrefix(key, k+".") && fv.T != nil {
			overlay = true
			break
		}
	}
	if hasVal && v.T != nil && !overlay {
		return v
	}
	var base *Term
	if hasVal && v.T != nil && isStructSort(v.T.Sort) {
		base = v.T
	} else if !has || v.T == nil {
		// maybe an enclosing struct has a whole value
		if i := strings.LastIndex(path, "."); i >= 0 {
			pt := pathType(alloc, path[:i])
			if pt != nil {
				if ps, ok := pt.Underlying().(*types.Struct); ok {
					pk := localKey(alloc, path[:i])
					if pv, ok := locals[pk]; ok && pv.T != nil && isStructSort(pv.T.Sort) {
						for j := 0; j < ps.NumFields(); j++ {
							if ps.Field(j).Name() == path[i+1:] {
								base = fc.structField(pv.T, pt, ps.Field(j))
							}
						}
					}
				}
			}
		}
	}
	srt := u.sortOf(typ)
	fc.declSort(srt)
	sv := fc.d.Fresh("struct", srt)
	for i := 0; i < s.NumFields(); i++ {
		f := s.Field(i)
		var ft *Term
		if _, nested := f.Type().Underlying().(*types.Struct); nested {
			ft = ex.loadLocal(st, alloc, path+"."+f.Name(), f.Type()).T
		} else {
			fk := localKey(alloc, path+"."+f.Name())
			fv, ok := locals[fk]
			switch {
			case ok && fv.T != nil:
				ft = fv.T
			case base != nil:
				ft = fc.structField(base, typ, f)
			default:
				ft = fc.zeroOf(f.Type())
			}
		}
		if ft != nil {
			st.assume(Eq(fc.structField(sv, typ, f), ft))
		}
	}
	return SVal{Val: Val{T: sv, Typ: typ}}
}

// pathType: the type of the struct reached from a local alloc by a ".f.g" field path.
func pathType(alloc *ssa.Alloc, path string) types.Type {
	t := alloc.Type().Underlying().(*types.Pointer).Elem()
	if path == "" {
		return t
	}
	for _, name := range strings.Split(strings.TrimPrefix(path, "."), ".") {
		s, ok := t.Underlying().(*types.Struct)
		if !ok {
			return nil
		}
		found := false
		for i := 0; i < s.NumFields(); i++ {
			if s.Field(i).Name() == name {
				t = s.Field(i).Type()
				found = true
				break
			}
		}
		if !found {
			return nil
		}
	}
	return t
}
