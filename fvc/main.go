package main

import (
	"flag"
	"fmt"
	"os"
	"path/filepath"
	"sort"
	"strings"
	"time"

	"golang.org/x/tools/go/ssa"
)

func usage() {
	fmt.Fprintln(os.Stderr, `usage:
  fvc check -p <property> [-tier quick|thorough]   decide one property (writes evidence/<id>.json)
  fvc all [-v]                                     verify every function under contract
  fvc func <name> [-v] [-keep]                     verify one function, list obligations
  fvc list                                         list functions and contracts
  fvc replay <file>                                re-run a replay file
  fvc selftest                                     must-fail corpus`)
	os.Exit(2)
}

func main() {
	if len(os.Args) < 2 {
		usage()
	}
	switch os.Args[1] {
	case "check":
		os.Exit(cmdCheck(os.Args[2:]))
	case "all":
		os.Exit(cmdAll(os.Args[2:]))
	case "func":
		os.Exit(cmdFunc(os.Args[2:]))
	case "list":
		os.Exit(cmdList(os.Args[2:]))
	case "names":
		os.Exit(cmdNames(os.Args[2:]))
	case "replay":
		os.Exit(cmdReplay(os.Args[2:]))
	case "selftest":
		os.Exit(cmdSelftest(os.Args[2:]))
	default:
		usage()
	}
}

func scratchDir() string {
	d := os.Getenv("FVC_SCRATCH")
	if d == "" {
		d = filepath.Join(os.TempDir(), fmt.Sprintf("fvc-%d", os.Getpid()))
	}
	os.MkdirAll(d, 0o755)
	return d
}

func newSolver(tier string) *Solver {
	// generous limits: an obligation that is decided on an idle machine in a few seconds must not
	// time out when the machine is loaded (the race stops at the first answer, so the limits only
	// cost time for obligations that fail)
	s := &Solver{dir: filepath.Join(scratchDir(), "smt"), quickS: 5, slowS: 40, workers: 16}
	if tier == "thorough" {
		s.quickS, s.slowS = 10, 120
	}
	// development override (used by the canary runner, which only needs to see a failure)
	if v := os.Getenv("FVC_LIMITS"); v != "" {
		fmt.Sscanf(v, "%d,%d", &s.quickS, &s.slowS)
	}
	return s
}

// contractedFunctions returns (function, contract) pairs for every in-package function that
// has a contract (generic contracts apply to each instance with a body).
func (u *Universe) contractedFunctions() []struct {
	fn *ssa.Function
	c  *Contract
} {
	var out []struct {
		fn *ssa.Function
		c  *Contract
	}
	for _, fn := range u.funcList {
		if len(fn.Blocks) == 0 {
			continue
		}
		name := u.displayName(fn)
		if strings.HasSuffix(name, "$bound") || fn.Synthetic != "" && !strings.Contains(fn.Synthetic, "instance") && !strings.Contains(fn.Synthetic, "instantiation") {
			continue
		}
		c := u.contractFor(fn)
		if c == nil || c.Extern || c.Trusted || c.Inline {
			continue
		}
		if fn.TypeParams().Len() > 0 && len(fn.TypeArgs()) == 0 {
			continue // uninstantiated generic
		}
		out = append(out, struct {
			fn *ssa.Function
			c  *Contract
		}{fn, c})
	}
	return out
}

func statusLine(ob *Obligation) string {
	r := ob.Result
	if r == nil {
		return "unsolved"
	}
	rel := ""
	if r.Relaxed {
		rel = " (candidate model from relaxed query)"
	}
	return fmt.Sprintf("%-8s %-9s %5.2fs%s", r.Status, r.Backend, r.Seconds, rel)
}

func cmdFunc(args []string) int {
	fs := flag.NewFlagSet("func", flag.ExitOnError)
	v := fs.Bool("v", false, "verbose")
	tier := fs.String("tier", "quick", "tier")
	fs.Parse(args)
	if fs.NArg() < 1 {
		usage()
	}
	u, err := loadUniverse()
	if err != nil {
		fmt.Fprintln(os.Stderr, "load:", err)
		return 2
	}
	rc := 0
	for _, name := range fs.Args() {
		var fns []*ssa.Function
		for n, f := range u.funcs {
			if (n == name || genericName(n) == name) && len(f.Blocks) > 0 {
				fns = append(fns, f)
			}
		}
		if len(fns) == 0 {
			fmt.Fprintf(os.Stderr, "no function %s\n", name)
			return 2
		}
		sort.Slice(fns, func(i, j int) bool { return u.displayName(fns[i]) < u.displayName(fns[j]) })
		for _, fn := range fns {
			c := u.resolveLike(u.contractFor(fn))
			if c == nil {
				fmt.Fprintf(os.Stderr, "no contract for %s\n", name)
				return 2
			}
			t0 := time.Now()
			fc := u.verifyFunction(fn, c)
			fc.obs = dropCovers(fc.obs)
			gen := time.Since(t0)
			if os.Getenv("FVC_GENONLY") != "" {
				total := 0
				byKind := map[string]int{}
				big := ""
				bigOb := ""
				for _, ob := range fc.obs {
					n := len(ob.Goal.S)
					for _, p := range ob.PC {
						n += len(p.S)
						if len(p.S) > len(big) {
							big = p.S
							bigOb = ob.Name
						}
					}
					total += n
					byKind[ob.Kind]++
				}
				if len(big) > 600 {
					big = big[:600]
				}
				fmt.Printf("largest PC term (in %s): %s\n", bigOb, big)
				fmt.Printf("== %s: %d obligations, %d forks, gen %.2fs, total smt bytes %d, kinds %v, errs %v\n", fc.name, len(fc.obs), fc.paths, gen.Seconds(), total, byKind, fc.errs)
				continue
			}
			s := newSolver(*tier)
			s.solveAll(fc.obs)
			fmt.Printf("== %s: %d obligations, %d forks, gen %.2fs\n", fc.name, len(fc.obs), fc.paths, gen.Seconds())
			for _, e := range fc.errs {
				fmt.Println("   !", e)
				if !strings.HasPrefix(e, "note:") {
					rc = 1
				}
			}
			for _, ob := range fc.obs {
				ok := ob.Result != nil && ob.Result.Status == "unsat"
				if !ok {
					rc = 1
				}
				if *v || !ok {
					fmt.Printf("  %-60s %s %v\n", ob.Name, statusLine(ob), ob.Tags)
					if !ok {
						fmt.Printf("      clause: %s\n      path: %s\n      file: %s\n", ob.Clause, ob.Path, ob.Result.File)
					}
				}
			}
		}
	}
	return rc
}

func cmdAll(args []string) int {
	fs := flag.NewFlagSet("all", flag.ExitOnError)
	v := fs.Bool("v", false, "verbose")
	tier := fs.String("tier", "quick", "tier")
	fs.Parse(args)
	u, err := loadUniverse()
	if err != nil {
		fmt.Fprintln(os.Stderr, "load:", err)
		return 2
	}
	for _, e := range u.loadErrs {
		fmt.Println("load error:", e)
	}
	t0 := time.Now()
	var all []*Obligation
	var fcs []*FuncCtx
	for _, p := range u.contractedFunctions() {
		fc := u.verifyFunction(p.fn, u.resolveLike(p.c))
		fc.obs = dropCovers(fc.obs)
		fcs = append(fcs, fc)
		all = append(all, fc.obs...)
	}
	gen := time.Since(t0)
	s := newSolver(*tier)
	s.solveAll(all)
	rc := 0
	nOK := 0
	for _, fc := range fcs {
		bad := 0
		for _, ob := range fc.obs {
			if ob.Result != nil && ob.Result.Status == "unsat" {
				nOK++
			} else {
				bad++
			}
		}
		hard := 0
		for _, e := range fc.errs {
			if !strings.HasPrefix(e, "note:") {
				hard++
			}
		}
		if bad > 0 || hard > 0 || *v {
			fmt.Printf("== %s: %d obligations, %d failed\n", fc.name, len(fc.obs), bad)
		}
		for _, e := range fc.errs {
			if !strings.HasPrefix(e, "note:") || *v {
				fmt.Println("   !", e)
			}
		}
		if hard > 0 {
			rc = 1
		}
		for _, ob := range fc.obs {
			if ob.Result == nil || ob.Result.Status != "unsat" {
				rc = 1
				fmt.Printf("  %-60s %s %v\n      %s\n      %s\n", ob.Name, statusLine(ob), ob.Tags, ob.Clause, ob.Result.File)
			}
		}
	}
	if os.Getenv("FVC_SLOWEST") != "" {
		sorted := append([]*Obligation(nil), all...)
		sort.Slice(sorted, func(i, j int) bool { return sorted[i].Result.Seconds > sorted[j].Result.Seconds })
		for i := 0; i < 20 && i < len(sorted); i++ {
			fmt.Printf("slow %6.2fs %-9s %s [%s]\n", sorted[i].Result.Seconds, sorted[i].Result.Backend, sorted[i].Name, sorted[i].Path)
		}
	}
	fmt.Printf("functions=%d obligations=%d discharged=%d gen=%.1fs total=%.1fs\n", len(fcs), len(all), nOK, gen.Seconds(), time.Since(t0).Seconds())
	return rc
}

func cmdList(args []string) int {
	u, err := loadUniverse()
	if err != nil {
		fmt.Fprintln(os.Stderr, "load:", err)
		return 2
	}
	for _, g := range u.gfacts {
		fmt.Printf("globalfact %s: ok=%v %s globals=%v\n", g.clause.Text, g.ok, g.err, g.globals)
	}
	if len(args) > 0 {
		fn := u.funcs[args[0]]
		if fn == nil {
			fmt.Println("no such function")
			return 2
		}
		count := map[string]int{}
		var allocs []*ssa.Alloc
		for _, b := range fn.Blocks {
			for _, in := range b.Instrs {
				if a, ok := in.(*ssa.Alloc); ok && a.Comment != "" {
					allocs = append(allocs, a)
				}
			}
		}
		sort.SliceStable(allocs, func(i, j int) bool { return allocs[i].Pos() < allocs[j].Pos() })
		for _, a := range allocs {
			count[a.Comment]++
			fmt.Printf("  local %s@%d  %s  line %d heap=%v\n", a.Comment, count[a.Comment], a.Type(), u.fset.Position(a.Pos()).Line, a.Heap)
		}
		for _, l := range u.loopsOf(fn) {
			fmt.Printf("  loop %d header block %d (%s)\n", l.Ordinal, l.Header.Index, l.Header.Comment)
		}
		return 0
	}
	for _, n := range sortedKeys(u.funcs) {
		fn := u.funcs[n]
		c := u.contractFor(fn)
		mark := " "
		if c != nil {
			mark = "C"
		}
		fmt.Printf("%s %-70s blocks=%d loops=%d synthetic=%q\n", mark, n, len(fn.Blocks), len(u.loopsOf(fn)), fn.Synthetic)
	}
	return 0
}

// dropCovers removes the vacuity-guard obligations (used by the thorough tier only).
func dropCovers(obs []*Obligation) []*Obligation {
	var out []*Obligation
	for _, ob := range obs {
		if ob.Kind != "cover" {
			out = append(out, ob)
		}
	}
	return out
}
