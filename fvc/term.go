package main

// Terms are SMT-LIB s-expression strings with a sort. Construction does light
// simplification so that ground facts fold away before they reach a solver.

import (
	"fmt"
	"sort"
	"strconv"
	"strings"
)

type Sort string

const (
	SInt  Sort = "Int"
	SBool Sort = "Bool"
	SStr  Sort = "(Seq Int)"
	SAny  Sort = "Any"
	SFn   Sort = "Fn"
	SF64  Sort = "F64"
	SBV   Sort = "(_ BitVec 64)"
	SDV   Sort = "DV"
	SUnit Sort = "Unit"
)

func SeqOf(e Sort) Sort   { return Sort("(Seq " + string(e) + ")") }
func ArrOf(k, v Sort) Sort { return Sort("(Array " + string(k) + " " + string(v) + ")") }
func (s Sort) IsSeq() bool { return strings.HasPrefix(string(s), "(Seq ") }
func (s Sort) Elem() Sort {
	if s.IsSeq() {
		return Sort(string(s)[5 : len(s)-1])
	}
	panic("Elem of non-seq sort " + string(s))
}

type Term struct {
	S    string
	Sort Sort
}

func (t *Term) String() string { return t.S }

var (
	TTrue  = &Term{"true", SBool}
	TFalse = &Term{"false", SBool}
)

func IntLit(n int64) *Term {
	if n < 0 {
		return &Term{"(- " + strconv.FormatInt(-n, 10) + ")", SInt}
	}
	return &Term{strconv.FormatInt(n, 10), SInt}
}

func BigIntLit(s string) *Term { // decimal string, may be negative
	if strings.HasPrefix(s, "-") {
		return &Term{"(- " + s[1:] + ")", SInt}
	}
	return &Term{s, SInt}
}

func BVLit(n uint64) *Term {
	return &Term{fmt.Sprintf("#x%016x", n), SBV}
}

func BoolLit(b bool) *Term {
	if b {
		return TTrue
	}
	return TFalse
}

func isIntLit(t *Term) (int64, bool) {
	s := t.S
	if len(s) == 0 {
		return 0, false
	}
	if s[0] >= '0' && s[0] <= '9' {
		n, err := strconv.ParseInt(s, 10, 64)
		return n, err == nil
	}
	if strings.HasPrefix(s, "(- ") && strings.HasSuffix(s, ")") {
		n, err := strconv.ParseInt(s[3:len(s)-1], 10, 64)
		if err == nil {
			return -n, true
		}
	}
	return 0, false
}

func App(sort Sort, op string, args ...*Term) *Term {
	var sb strings.Builder
	sb.WriteByte('(')
	sb.WriteString(op)
	for _, a := range args {
		sb.WriteByte(' ')
		sb.WriteString(a.S)
	}
	sb.WriteByte(')')
	return &Term{sb.String(), sort}
}

func Not(a *Term) *Term {
	switch a.S {
	case "true":
		return TFalse
	case "false":
		return TTrue
	}
	if strings.HasPrefix(a.S, "(not ") {
		return &Term{a.S[5 : len(a.S)-1], SBool}
	}
	return App(SBool, "not", a)
}

func And(as ...*Term) *Term {
	var out []*Term
	for _, a := range as {
		if a.S == "true" {
			continue
		}
		if a.S == "false" {
			return TFalse
		}
		out = append(out, a)
	}
	switch len(out) {
	case 0:
		return TTrue
	case 1:
		return out[0]
	}
	return App(SBool, "and", out...)
}

func Or(as ...*Term) *Term {
	var out []*Term
	for _, a := range as {
		if a.S == "false" {
			continue
		}
		if a.S == "true" {
			return TTrue
		}
		out = append(out, a)
	}
	switch len(out) {
	case 0:
		return TFalse
	case 1:
		return out[0]
	}
	return App(SBool, "or", out...)
}

func Implies(a, b *Term) *Term {
	if a.S == "true" {
		return b
	}
	if a.S == "false" || b.S == "true" {
		return TTrue
	}
	if b.S == "false" {
		return Not(a)
	}
	return App(SBool, "=>", a, b)
}

func Eq(a, b *Term) *Term {
	if a.S == b.S {
		return TTrue
	}
	if a.Sort != b.Sort {
		panic(fmt.Sprintf("Eq sort mismatch: %s:%s vs %s:%s", a.S, a.Sort, b.S, b.Sort))
	}
	if x, ok := isIntLit(a); ok {
		if y, ok := isIntLit(b); ok {
			return BoolLit(x == y)
		}
	}
	if a.Sort == SBool {
		if a.S == "true" {
			return b
		}
		if b.S == "true" {
			return a
		}
		if a.S == "false" {
			return Not(b)
		}
		if b.S == "false" {
			return Not(a)
		}
	}
	return App(SBool, "=", a, b)
}

func Ite(c, a, b *Term) *Term {
	if c.S == "true" {
		return a
	}
	if c.S == "false" {
		return b
	}
	if a.S == b.S {
		return a
	}
	if a.Sort != b.Sort {
		panic(fmt.Sprintf("Ite sort mismatch: %s:%s vs %s:%s", a.S, a.Sort, b.S, b.Sort))
	}
	return App(a.Sort, "ite", c, a, b)
}

func Add(a, b *Term) *Term {
	if x, ok := isIntLit(a); ok {
		if y, ok := isIntLit(b); ok {
			return IntLit(x + y)
		}
		if x == 0 {
			return b
		}
	}
	if y, ok := isIntLit(b); ok && y == 0 {
		return a
	}
	return App(SInt, "+", a, b)
}

func Sub(a, b *Term) *Term {
	if x, ok := isIntLit(a); ok {
		if y, ok := isIntLit(b); ok {
			return IntLit(x - y)
		}
	}
	if y, ok := isIntLit(b); ok && y == 0 {
		return a
	}
	if a.S == b.S {
		return IntLit(0)
	}
	return App(SInt, "-", a, b)
}

func Mul(a, b *Term) *Term {
	if x, ok := isIntLit(a); ok {
		if y, ok := isIntLit(b); ok {
			return IntLit(x * y)
		}
	}
	return App(SInt, "*", a, b)
}

func Neg(a *Term) *Term {
	if x, ok := isIntLit(a); ok {
		return IntLit(-x)
	}
	return App(SInt, "-", a)
}

func cmp(op string, a, b *Term) *Term {
	if x, ok := isIntLit(a); ok {
		if y, ok := isIntLit(b); ok {
			switch op {
			case "<":
				return BoolLit(x < y)
			case "<=":
				return BoolLit(x <= y)
			case ">":
				return BoolLit(x > y)
			case ">=":
				return BoolLit(x >= y)
			}
		}
	}
	return App(SBool, op, a, b)
}
func Lt(a, b *Term) *Term { return cmp("<", a, b) }
func Le(a, b *Term) *Term { return cmp("<=", a, b) }
func Gt(a, b *Term) *Term { return cmp(">", a, b) }
func Ge(a, b *Term) *Term { return cmp(">=", a, b) }

// Go's truncated division and remainder on mathematical integers.
func GoQuo(a, b *Term) *Term {
	return Ite(Ge(a, IntLit(0)),
		Ite(Gt(b, IntLit(0)), App(SInt, "div", a, b), Neg(App(SInt, "div", a, Neg(b)))),
		Ite(Gt(b, IntLit(0)), Neg(App(SInt, "div", Neg(a), b)), App(SInt, "div", Neg(a), Neg(b))))
}
func GoRem(a, b *Term) *Term {
	return Sub(a, Mul(b, GoQuo(a, b)))
}

// termDefs: definitions of named terms (name -> term), so that sequence simplifications
// can look through names introduced to keep verification conditions small.
var termDefs = map[string]*Term{}

func resolveDef(t *Term) *Term {
	for i := 0; i < 4; i++ {
		d, ok := termDefs[t.S]
		if !ok {
			return t
		}
		t = d
	}
	return t
}

// splitApp splits "(op a1 a2 ...)" into op and argument strings.
func splitApp(s string) (string, []string) {
	if len(s) < 2 || s[0] != '(' || s[len(s)-1] != ')' {
		return "", nil
	}
	inner := s[1 : len(s)-1]
	var parts []string
	depth := 0
	start := 0
	for i := 0; i <= len(inner); i++ {
		if i == len(inner) || (inner[i] == ' ' && depth == 0) {
			if i > start {
				parts = append(parts, inner[start:i])
			}
			start = i + 1
			continue
		}
		if inner[i] == '(' {
			depth++
		} else if inner[i] == ')' {
			depth--
		}
	}
	if len(parts) == 0 {
		return "", nil
	}
	return parts[0], parts[1:]
}

// snocParts: t == a ++ [x]
func snocParts(t *Term) (*Term, *Term, bool) {
	t = resolveDef(t)
	op, args := splitApp(t.S)
	if op != "seq.++" || len(args) != 2 {
		return nil, nil, false
	}
	uop, uargs := splitApp(args[1])
	if uop != "seq.unit" || len(uargs) != 1 {
		return nil, nil, false
	}
	return &Term{args[0], t.Sort}, &Term{uargs[0], t.Sort.Elem()}, true
}

// Sequences
func SeqLen(s *Term) *Term {
	if strings.HasPrefix(s.S, "(as seq.empty") {
		return IntLit(0)
	}
	if a, _, ok := snocParts(s); ok {
		return Add(SeqLen(a), IntLit(1))
	}
	if op, args := splitApp(resolveDef(s).S); op == "seq.unit" && len(args) == 1 {
		return IntLit(1)
	}
	return App(SInt, "seq.len", s)
}
func SeqNth(s, i *Term) *Term {
	if a, x, ok := snocParts(s); ok {
		return Ite(Lt(i, SeqLen(a)), SeqNth(a, i), x)
	}
	raw := App(s.Sort.Elem(), "seq.nth", s, i)
	r := resolveDef(s)
	switch op, args := splitApp(r.S); {
	case op == "seq.++" && len(args) == 2:
		// element of a concatenation: in the first or in the second part
		a, b := &Term{args[0], s.Sort}, &Term{args[1], s.Sort}
		return Ite(Lt(i, SeqLen(a)), SeqNth(a, i), SeqNth(b, Sub(i, SeqLen(a))))
	case op == "seq.extract" && len(args) == 3:
		// element of a window that lies inside the sequence
		b, off, n := &Term{args[0], s.Sort}, &Term{args[1], SInt}, &Term{args[2], SInt}
		inside := And(Ge(i, IntLit(0)), Lt(i, n), Ge(off, IntLit(0)), Le(Add(off, n), SeqLen(b)))
		return Ite(inside, SeqNth(b, Add(off, i)), raw)
	}
	return raw
}
func SeqExtract(s, off, n *Term) *Term {
	return App(s.Sort, "seq.extract", s, off, n)
}
func SeqSlice(s, lo, hi *Term) *Term { return SeqExtract(s, lo, Sub(hi, lo)) }
func SeqConcat(a, b *Term) *Term {
	if strings.HasPrefix(a.S, "(as seq.empty") {
		return b
	}
	if strings.HasPrefix(b.S, "(as seq.empty") {
		return a
	}
	return App(a.Sort, "seq.++", a, b)
}
func SeqUnit(e *Term) *Term   { return App(SeqOf(e.Sort), "seq.unit", e) }
func SeqEmpty(s Sort) *Term   { return &Term{"(as seq.empty " + string(s) + ")", s} }
func Select(a, i *Term) *Term { return App(arrVal(a.Sort), "select", a, i) }
func Store(a, i, v *Term) *Term {
	return App(a.Sort, "store", a, i, v)
}

func arrVal(s Sort) Sort {
	// (Array K V) -> V ; K is a simple or parenthesised sort
	str := string(s)
	if !strings.HasPrefix(str, "(Array ") {
		panic("not an array sort: " + str)
	}
	rest := str[7 : len(str)-1]
	// split first sort
	i := sortEnd(rest)
	return Sort(strings.TrimSpace(rest[i:]))
}
func arrKey(s Sort) Sort {
	str := string(s)
	rest := str[7 : len(str)-1]
	i := sortEnd(rest)
	return Sort(strings.TrimSpace(rest[:i]))
}
func sortEnd(s string) int {
	if s[0] != '(' {
		return strings.IndexByte(s, ' ')
	}
	d := 0
	for i := 0; i < len(s); i++ {
		if s[i] == '(' {
			d++
		} else if s[i] == ')' {
			d--
			if d == 0 {
				return i + 1
			}
		}
	}
	return len(s)
}

func StrLit(s string) *Term {
	if len(s) == 0 {
		return SeqEmpty(SStr)
	}
	if len(s) == 1 {
		return SeqUnit(IntLit(int64(s[0])))
	}
	var parts []string
	for i := 0; i < len(s); i++ {
		parts = append(parts, "(seq.unit "+strconv.Itoa(int(s[i]))+")")
	}
	return &Term{"(seq.++ " + strings.Join(parts, " ") + ")", SStr}
}

// Decls collects symbol declarations for one verification context.
type Decls struct {
	order []string
	decl  map[string]string
	n     int
	old   map[string]bool // reference terms known to be allocated before function entry
}

func NewDecls() *Decls { return &Decls{decl: map[string]string{}, old: map[string]bool{}} }

// isOld: the reference is allocated before function entry, so no object allocated later can
// be equal to it. Known for parameters and for references read from the entry heap (H0), which
// is closed under reachability (every reference stored in it was allocated before entry).
func (d *Decls) isOld(t *Term) bool {
	s := t.S
	if d.old[s] || strings.HasPrefix(s, "(select H0!") || strings.HasPrefix(s, "(seq.nth (select H0!") {
		return true
	}
	for _, acc := range []string{"(a_ref_v ", "(fn_recv "} {
		if strings.HasPrefix(s, acc) && strings.HasSuffix(s, ")") {
			inner := s[len(acc) : len(s)-1]
			if d.old[inner] || strings.HasPrefix(inner, "(select H0!") || strings.HasPrefix(inner, "(seq.nth (select H0!") {
				return true
			}
		}
	}
	return false
}

func (d *Decls) Const(name string, s Sort) *Term {
	if _, ok := d.decl[name]; !ok {
		d.decl[name] = fmt.Sprintf("(declare-fun %s () %s)", name, s)
		d.order = append(d.order, name)
	}
	return &Term{name, s}
}

func (d *Decls) Fresh(prefix string, s Sort) *Term {
	d.n++
	return d.Const(fmt.Sprintf("%s!%d", sanitize(prefix), d.n), s)
}

func (d *Decls) Fun(name string, args []Sort, ret Sort) {
	if _, ok := d.decl[name]; !ok {
		var as []string
		for _, a := range args {
			as = append(as, string(a))
		}
		d.decl[name] = fmt.Sprintf("(declare-fun %s (%s) %s)", name, strings.Join(as, " "), ret)
		d.order = append(d.order, name)
	}
}

func (d *Decls) SortDecl(name string) {
	k := "sort:" + name
	if _, ok := d.decl[k]; !ok {
		d.decl[k] = fmt.Sprintf("(declare-sort %s 0)", name)
		d.order = append(d.order, k)
	}
}

func (d *Decls) Text() string {
	var sorts, rest []string
	for _, k := range d.order {
		if strings.HasPrefix(k, "sort:") {
			sorts = append(sorts, d.decl[k])
		} else {
			rest = append(rest, d.decl[k])
		}
	}
	return strings.Join(sorts, "\n") + "\n" + preludeDatatypes + "\n" + strings.Join(rest, "\n") + "\n"
}

const preludeDatatypes = `(declare-sort F64 0)
(declare-sort DV 0)
(declare-datatypes ((Fn 0)) (((mk_fn (fn_id Int) (fn_recv Int)))))
(declare-datatypes ((Any 0)) ((
 (a_nil)
 (a_bool (a_bool_v Bool))
 (a_str (a_str_v (Seq Int)))
 (a_int (a_int_ty Int) (a_int_v Int))
 (a_f64 (a_f64_ty Int) (a_f64_v F64))
 (a_ref (a_ref_ty Int) (a_ref_v Int))
 (a_fn (a_fn_ty Int) (a_fn_v Fn))
 (a_oth (a_oth_ty Int) (a_oth_v Int)))))`

func sanitize(s string) string {
	var sb strings.Builder
	for _, r := range s {
		switch {
		case r >= 'a' && r <= 'z', r >= 'A' && r <= 'Z', r >= '0' && r <= '9', r == '_', r == '.', r == '!', r == '$':
			sb.WriteRune(r)
		default:
			sb.WriteByte('_')
		}
	}
	return sb.String()
}

func sortedKeys[V any](m map[string]V) []string {
	var ks []string
	for k := range m {
		ks = append(ks, k)
	}
	sort.Strings(ks)
	return ks
}
