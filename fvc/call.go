package main

import (
	"os"
	"fmt"
	"go/types"
	"strings"

	"golang.org/x/tools/go/ssa"
)

const maxInlineDepth = 14

// call executes a call instruction. Returns true if the path forked and was finished.
func (ex *Exec) call(st *State, fr *Frame, in *ssa.Call) bool {
	common := in.Common()
	var args []SVal
	for _, a := range common.Args {
		args = append(args, ex.val(st, a))
	}
	if common.IsInvoke() {
		return ex.invoke(st, fr, in, args)
	}
	switch callee := common.Value.(type) {
	case *ssa.Builtin:
		ex.builtin(st, in, callee, args)
		return false
	case *ssa.Function:
		return ex.staticCall(st, fr, in, callee, args, nil)
	case *ssa.MakeClosure:
		fn := callee.Fn.(*ssa.Function)
		var bs []SVal
		for _, b := range callee.Bindings {
			bs = append(bs, ex.val(st, b))
		}
		return ex.staticCall(st, fr, in, fn, args, bs)
	}
	fv := ex.val(st, common.Value)
	if fv.Closure != nil {
		return ex.staticCall(st, fr, in, fv.Closure.fn, args, fv.Closure.bindings)
	}
	return ex.dynamicCall(st, fr, in, fv, args)
}

func (ex *Exec) staticCall(st *State, fr *Frame, in ssa.CallInstruction, callee *ssa.Function, args []SVal, bindings []SVal) bool {
	u := ex.u
	name := u.displayName(callee)
	// bound-method thunks: call the method itself with the binding as receiver
	if strings.HasSuffix(name, "$bound") && len(bindings) == 1 {
		m := u.funcs[strings.TrimSuffix(name, "$bound")]
		if m != nil {
			return ex.staticCall(st, fr, in, m, append([]SVal{bindings[0]}, args...), nil)
		}
	}
	// sync.Map held in a package-level variable: Store and Load are modelled exactly, as a map
	// from interface values to interface values (the variable is written only by init: sweeps)
	if (name == "(*sync.Map).Store" || name == "(*sync.Map).Load") && len(args) >= 2 && args[0].HAddr != nil && strings.HasPrefix(args[0].HAddr.key, "global:") {
		ex.syncMapOp(st, in, name, args)
		return false
	}
	c := u.resolveLike(u.contractFor(callee))
	if c != nil && !c.Inline {
		if len(bindings) > 0 {
			ex.unsupported(st, "contract call of closure with bindings: %s", name)
		}
		ex.contractCall(st, in, callee, name, c, args)
		return false
	}
	if len(callee.Blocks) == 0 {
		// external without contract
		ex.uncontractedExternal(st, in, callee, name, args)
		return false
	}
	if callee.Pkg != u.pkg && !(callee.Origin() != nil && callee.Origin().Pkg == u.pkg) && callee.Synthetic == "" {
		// function of another package with a body but no assumed contract
		ex.uncontractedExternal(st, in, callee, name, args)
		return false
	}
	if callee.Pkg != u.pkg && callee.Synthetic != "" && !strings.Contains(callee.String(), u.tpkg.Path()) {
		ex.uncontractedExternal(st, in, callee, name, args)
		return false
	}
	// inline
	if len(st.frames) > maxInlineDepth {
		ex.unsupported(st, "inline depth exceeded at %s", name)
	}
	for _, f := range st.frames {
		if f.fn == callee {
			ex.unsupported(st, "recursive call of %s without a contract", name)
		}
	}
	u.inlined[name] = true
	nf := &Frame{fn: callee, vals: map[ssa.Value]SVal{}, locals: map[string]SVal{}, variant: map[*ssa.BasicBlock][]*Term{}, call: in, contract: nil}
	if len(args) != len(callee.Params) {
		ex.unsupported(st, "arity mismatch inlining %s", name)
	}
	for i, p := range callee.Params {
		nf.vals[p] = args[i]
	}
	for i, fv := range callee.FreeVars {
		if i < len(bindings) {
			nf.vals[fv] = bindings[i]
		}
	}
	nf.block = callee.Blocks[0]
	st.frames = append(st.frames, nf)
	st.path = append(st.path, "inl:"+name)
	return false
}

func (ex *Exec) uncontractedExternal(st *State, in ssa.CallInstruction, callee *ssa.Function, name string, args []SVal) {
	fc := ex.fc
	root := st.frames[0]
	if root.contract != nil && root.contract.NoPanic {
		fc.emit(st, "panic", fc.siteFor(in, "call:"+name), "call of "+name+" (no assumed contract: may panic) at "+ex.posOf(in), root.contract.PanicTags, TFalse)
	}
	fc.noteAssumption("external call without contract treated as pure with arbitrary result: " + name)
	ex.setResults(st, in, callee.Signature.Results(), "r_"+name)
	ex.flushInv(st)
}

func (fc *FuncCtx) noteAssumption(s string) {
	for _, e := range fc.errs {
		if e == "note: "+s {
			return
		}
	}
	fc.errs = append(fc.errs, "note: "+s)
}

// setResults binds fresh result values for a call.
// pendingInv: call results whose object invariants are assumed once the callee's
// postconditions (and the post-call heap) are in place.
var pendingInv []Val

func (ex *Exec) flushInv(st *State) {
	for _, v := range pendingInv {
		st.assume(ex.fc.objInvFact(st.heap, st.alloc(), v.T, v.Typ))
	}
	pendingInv = nil
}

func (ex *Exec) setResults(st *State, in ssa.CallInstruction, res *types.Tuple, prefix string) []Val {
	fc := ex.fc
	var vals []Val
	for i := 0; i < res.Len(); i++ {
		t := res.At(i).Type()
		v := fc.freshOf(prefix, t)
		st.assume(fc.wellFormed(v, t, st.alloc()))
		st.assume(fc.typeInvariant(v, t))
		vals = append(vals, Val{T: v, Typ: t})
		pendingInv = append(pendingInv, Val{T: v, Typ: t})
	}
	if v := in.Value(); v != nil {
		switch len(vals) {
		case 0:
		case 1:
			ex.setVal(st, v, SVal{Val: vals[0]})
		default:
			ex.setVal(st, v, SVal{Val: Val{Tuple: vals, Typ: res}})
		}
	}
	return vals
}

// contractCall applies a callee contract at a call site.
func (ex *Exec) contractCall(st *State, in ssa.CallInstruction, callee *ssa.Function, name string, c *Contract, args []SVal) {
	fc := ex.fc
	root := st.frames[0]
	sig := callee.Signature
	if c.Extern {
		fc.noteAssumption("assumed library contract (not verified): " + name)
	}
	// bind formals
	formals := map[string]Val{}
	bind := func(i int, n string) {
		if i < len(args) {
			if args[i].T == nil && args[i].Tuple == nil {
				// address-like values cannot cross a contract boundary unless unused
				return
			}
			formals[n] = args[i].Val
		}
	}
	k := 0
	var pnames []string
	if len(callee.Params) > 0 {
		pnames = ex.u.paramNames(callee)
	}
	if sig.Recv() != nil {
		n := sig.Recv().Name()
		if len(pnames) > 0 {
			n = pnames[0]
		}
		bind(0, n)
		bind(0, "recv")
		bind(0, "$0")
		k = 1
	}
	for i := 0; i < sig.Params().Len(); i++ {
		n := sig.Params().At(i).Name()
		if len(pnames) > i+k {
			n = pnames[i+k]
		}
		if n != "" && n != "_" {
			bind(i+k, n)
		}
		bind(i+k, fmt.Sprintf("$%d", i+1))
		if i < len(c.Params) {
			bind(i+k, c.Params[i])
		}
	}
	pre := &Env{fc: fc, heap: st.heap, oldHeap: st.heap, alloc: st.alloc(), oldAlloc: st.alloc(), vars: formals, side: &st.pc}
	// call-site assertions of the caller's contract
	if root.contract != nil && len(st.frames) == 1 {
		for i, ca := range root.contract.Asserts {
			if ca.Callee == name || ca.Callee == genericName(name) {
				cenv := ex.envFor(st, nil)
				ex.localsEnv(st, st.frames[0], cenv)
				for kk, v := range formals {
					cenv.vars[kk] = v
				}
				t := cenv.evalBool(ca.Clause.E)
				fc.emit(st, fmt.Sprintf("assert.%d", i+1), fc.siteFor(in, "call:"+name), ca.Clause.Text, ca.Clause.Tags, t)
			}
		}
	}
	for i, r := range c.Requires {
		t := pre.evalBool(r.E)
		fc.emit(st, fmt.Sprintf("pre.%d", i+1), fc.siteFor(in, "call:"+name), "precondition of "+name+": "+r.Text+" at "+ex.posOf(in), r.Tags, t)
		st.assume(t)
	}
	for _, pn := range sortedKeys(c.Dispatch) {
		if pv, ok := formals[pn]; ok && pv.T != nil && pv.T.Sort == SFn {
			fc.emit(st, "pre.dispatch", fc.siteFor(in, "call:"+name), "function argument "+pn+" of "+name+" is one of "+strings.Join(c.Dispatch[pn], ", ")+" at "+ex.posOf(in), nil, ex.u.dispatchCond(pv.T, c.Dispatch[pn]))
		}
	}
	// termination measure for recursive cycles
	if root.contract != nil && len(root.contract.Decreases) > 0 && len(c.Decreases) > 0 && len(st.frames) >= 1 {
		var cm []*Term
		for _, d := range c.Decreases {
			cm = append(cm, pre.eval(d).T)
		}
		renv := &Env{fc: fc, heap: fc.entryHeap, oldHeap: fc.entryHeap, alloc: fc.entryAlloc, oldAlloc: fc.entryAlloc, vars: map[string]Val{}, side: &st.pc}
		for kk, v := range fc.params {
			renv.vars[kk] = v
		}
		var rm []*Term
		for _, d := range root.contract.Decreases {
			rm = append(rm, renv.eval(d).T)
		}
		if ex.u.sameCycle(root.fn, callee) {
			fc.emit(st, "dec", fc.siteFor(in, "call:"+name), "recursion measure decreases at call of "+name+" at "+ex.posOf(in), []string{"TERM"}, lexLess(cm, rm))
		}
	}
	if root.contract != nil && root.contract.NoPanic && !c.NoPanic && !ex.hasDefers(st) {
		fc.emit(st, "panic", fc.siteFor(in, "call:"+name), "callee "+name+" is not proved panic-free at "+ex.posOf(in), root.contract.PanicTags, TFalse)
	}
	// frame: callee's assigns must be inside the caller's assigns
	var locs []assignLoc
	for _, d := range c.Assigns {
		locs = append(locs, ex.evalDesig(pre, d)...)
	}
	if !fc.assignAll && fc.contract != nil {
		if c.AssignAll {
			fc.emit(st, "frame", fc.siteFor(in, "call:"+name), "callee "+name+" assigns * but caller has a frame", []string{"FRAME"}, TFalse)
		}
		for _, l := range locs {
			ex.frameCheckLoc(st, in, name, l)
		}
	}
	oldHeap := st.heap
	oldAlloc := st.alloc()
	mayPanic := !c.NoPanic && ex.hasDefers(st)
	if os.Getenv("FVC_DEBUGPANIC") != "" {
		fmt.Fprintf(os.Stderr, "DEBUGPANIC call %s NoPanic=%v hasDefers=%v\n", name, c.NoPanic, ex.hasDefers(st))
	}
	var pst *State
	if mayPanic {
		pst = st.clone()
	}
	if len(locs) > 0 || c.AssignAll || !c.NoAlloc {
		ex.havocHeap(st, "call:"+name, locs, c.AssignAll, !c.NoAlloc)
	}
	results := ex.setResults(st, in, sig.Results(), "r_"+shortName(name))
	post := &Env{fc: fc, heap: st.heap, oldHeap: oldHeap, alloc: st.alloc(), oldAlloc: oldAlloc, vars: map[string]Val{}, side: &st.pc}
	for kk, v := range formals {
		post.vars[kk] = v
	}
	for i, r := range results {
		post.vars[fmt.Sprintf("result%d", i)] = r
		if i == 0 {
			post.vars["result"] = r
		}
		if n := sig.Results().At(i).Name(); n != "" && n != "_" {
			post.vars[n] = r
		}
		if i < len(c.Results) {
			post.vars[c.Results[i]] = r
		}
	}
	for _, e := range c.Ensures {
		st.assume(post.evalBool(e.E))
	}
	for _, e := range c.Defines {
		st.assume(post.evalBool(e.E))
	}
	ex.flushInv(st)
	if pst != nil {
		// exceptional exit of the callee observed by a deferred function
		ex.havocHeap(pst, "panic:"+name, locs, c.AssignAll, !c.NoAlloc)
		pst.panicking = true
		pst.escapeSite = in
		pst.path = append(pst.path, "panic-in:"+name)
		if done := ex.unwind(pst); !done {
			ex.run(pst)
		}
	}
}

func shortName(n string) string {
	if i := strings.LastIndex(n, "."); i >= 0 {
		n = n[i+1:]
	}
	return sanitize(n)
}

func (ex *Exec) frameCheckLoc(st *State, in ssa.Instruction, callee string, l assignLoc) {
	fc := ex.fc
	if l.isMap {
		ok := []*Term{Ge(l.ref, fc.entryAlloc)}
		for _, m := range fc.assignSet {
			if m.isMap && types.Identical(m.mapTyp, l.mapTyp) {
				ok = append(ok, refEq(l.ref, m.ref))
			}
		}
		fc.emit(st, "frame", fc.siteFor(in, "call:"+callee), "callee "+callee+" assigns "+l.text+": inside caller's assigns", []string{"FRAME"}, Or(ok...))
		return
	}
	if l.ref == nil {
		for _, m := range fc.assignSet {
			if m.key == l.key && m.ref == nil {
				return
			}
		}
		fc.emit(st, "frame", fc.siteFor(in, "call:"+callee), "callee "+callee+" assigns "+l.text+" (every object): inside caller's assigns", []string{"FRAME"}, TFalse)
		return
	}
	ok := []*Term{Ge(l.ref, fc.entryAlloc)}
	for _, m := range fc.assignSet {
		if m.isMap || m.key != l.key {
			continue
		}
		if m.ref == nil {
			return
		}
		ok = append(ok, refEq(l.ref, m.ref))
	}
	g := Or(ok...)
	if g.S == "true" {
		return
	}
	fc.emit(st, "frame", fc.siteFor(in, "call:"+callee), "callee "+callee+" assigns "+l.text+": inside caller's assigns", []string{"FRAME"}, g)
}

// sameCycle: callee can reach the caller again (static call graph over contracts/inlines).
func (u *Universe) sameCycle(caller, callee *ssa.Function) bool {
	if caller == callee {
		return true
	}
	seen := map[*ssa.Function]bool{}
	var visit func(f *ssa.Function) bool
	visit = func(f *ssa.Function) bool {
		if f == caller {
			return true
		}
		if seen[f] {
			return false
		}
		seen[f] = true
		for _, b := range f.Blocks {
			for _, in := range b.Instrs {
				ci, ok := in.(ssa.CallInstruction)
				if !ok {
					continue
				}
				com := ci.Common()
				var targets []*ssa.Function
				if sc := com.StaticCallee(); sc != nil {
					targets = append(targets, sc)
				}
				for _, a := range com.Args {
					if mc, ok := a.(*ssa.MakeClosure); ok {
						targets = append(targets, mc.Fn.(*ssa.Function))
					}
				}
				for _, t := range targets {
					name := u.displayName(t)
					if strings.HasSuffix(name, "$bound") {
						if m := u.funcs[strings.TrimSuffix(name, "$bound")]; m != nil {
							t = m
						}
					}
					if t.Pkg == u.pkg || (t.Origin() != nil && t.Origin().Pkg == u.pkg) {
						if visit(t) {
							return true
						}
					}
				}
			}
		}
		return false
	}
	return visit(callee)
}

// invoke resolves an interface method call.
func (ex *Exec) invoke(st *State, fr *Frame, in *ssa.Call, args []SVal) bool {
	u := ex.u
	common := in.Common()
	recv := ex.val(st, common.Value)
	m := common.Method
	iname := "(" + u.typeName(common.Value.Type()) + ")." + m.Name()
	if c, ok := u.contracts[iname]; ok {
		// assumed/declared contract on the interface method
		ex.contractCallNamed(st, in, iname, c, append([]SVal{recv}, args...), m.Type().(*types.Signature))
		return false
	}
	// find implementations inside the package
	var target *ssa.Function
	same := true
	n := 0
	scope := u.tpkg.Scope()
	iface, _ := common.Value.Type().Underlying().(*types.Interface)
	if iface == nil {
		ex.unsupported(st, "invoke on non-interface (type parameter?) %s", iname)
	}
	for _, nm := range scope.Names() {
		tn, ok := scope.Lookup(nm).(*types.TypeName)
		if !ok {
			continue
		}
		if named, ok := tn.Type().(*types.Named); ok && named.TypeParams().Len() > 0 {
			continue
		}
		for _, t := range []types.Type{tn.Type(), types.NewPointer(tn.Type())} {
			if _, isI := t.Underlying().(*types.Interface); isI {
				continue
			}
			if !types.Implements(t, iface) {
				continue
			}
			sel := types.NewMethodSet(t).Lookup(m.Pkg(), m.Name())
			if sel == nil {
				continue
			}
			f := u.prog.FuncValue(sel.Obj().(*types.Func))
			if f == nil {
				continue
			}
			// embedding path must be by value only
			n++
			if target == nil {
				target = f
			} else if target != f {
				same = false
			}
		}
	}
	if target == nil || !same {
		ex.unsupported(st, "cannot resolve interface call %s (implementations=%d, unique=%v)", iname, n, same)
	}
	ex.check(st, in, "nilinvoke", &Term{"((_ is a_ref) " + recv.T.S + ")", SBool})
	r := SVal{Val: Val{T: App(SInt, "a_ref_v", recv.T), Typ: target.Params[0].Type()}}
	st.assume(Gt(r.T, IntLit(0)))
	return ex.staticCall(st, fr, in, target, append([]SVal{r}, args...), nil)
}

// contractCallNamed: contract call where there is no ssa.Function (interface methods).
func (ex *Exec) contractCallNamed(st *State, in ssa.CallInstruction, name string, c *Contract, args []SVal, sig *types.Signature) {
	fc := ex.fc
	root := st.frames[0]
	if c.Extern {
		fc.noteAssumption("assumed library contract (not verified): " + name)
	}
	formals := map[string]Val{}
	for i, a := range args {
		if a.T != nil {
			formals[fmt.Sprintf("$%d", i)] = a.Val
			if i == 0 {
				formals["recv"] = a.Val
			}
		}
	}
	for i := 0; i < sig.Params().Len(); i++ {
		if n := sig.Params().At(i).Name(); n != "" && i+1 < len(args) && args[i+1].T != nil {
			formals[n] = args[i+1].Val
		}
	}
	pre := &Env{fc: fc, heap: st.heap, oldHeap: st.heap, alloc: st.alloc(), oldAlloc: st.alloc(), vars: formals, side: &st.pc}
	for i, r := range c.Requires {
		t := pre.evalBool(r.E)
		fc.emit(st, fmt.Sprintf("pre.%d", i+1), fc.siteFor(in, "call:"+name), "precondition of "+name+": "+r.Text+" at "+ex.posOf(in), r.Tags, t)
		st.assume(t)
	}
	if root.contract != nil && root.contract.NoPanic && !c.NoPanic {
		fc.emit(st, "panic", fc.siteFor(in, "call:"+name), "callee "+name+" is not proved/assumed panic-free at "+ex.posOf(in), root.contract.PanicTags, TFalse)
	}
	var locs []assignLoc
	for _, d := range c.Assigns {
		locs = append(locs, ex.evalDesig(pre, d)...)
	}
	if !fc.assignAll && fc.contract != nil {
		for _, l := range locs {
			ex.frameCheckLoc(st, in, name, l)
		}
	}
	oldHeap, oldAlloc := st.heap, st.alloc()
	ex.havocHeap(st, "call:"+name, locs, c.AssignAll, !c.NoAlloc)
	results := ex.setResults(st, in, sig.Results(), "r_"+shortName(name))
	post := &Env{fc: fc, heap: st.heap, oldHeap: oldHeap, alloc: st.alloc(), oldAlloc: oldAlloc, vars: map[string]Val{}, side: &st.pc}
	for kk, v := range formals {
		post.vars[kk] = v
	}
	for i, r := range results {
		post.vars[fmt.Sprintf("result%d", i)] = r
		if i == 0 {
			post.vars["result"] = r
		}
		if i < len(c.Results) {
			post.vars[c.Results[i]] = r
		}
	}
	for _, e := range c.Ensures {
		st.assume(post.evalBool(e.E))
	}
	ex.flushInv(st)
}

// dynamicCall dispatches a call through a function value using the caller's dispatch clause.
func (ex *Exec) dynamicCall(st *State, fr *Frame, in *ssa.Call, fv SVal, args []SVal) bool {
	fc := ex.fc
	u := ex.u
	if fv.T == nil || fv.T.Sort != SFn {
		ex.unsupported(st, "call through non-function value")
	}
	// key: parameter name or named function type
	var keys []string
	if p, ok := in.Common().Value.(*ssa.Parameter); ok {
		keys = append(keys, p.Name())
	}
	if ld, ok := in.Common().Value.(*ssa.UnOp); ok {
		if a, ok := ld.X.(*ssa.Alloc); ok && a.Comment != "" {
			keys = append(keys, a.Comment)
		}
	}
	keys = append(keys, u.typeName(in.Common().Value.Type()))
	var cands []string
	c := fr.contract
	if c == nil {
		c = st.frames[0].contract
	}
	// look through all frames for a dispatch clause
	for i := len(st.frames) - 1; i >= 0 && cands == nil; i-- {
		cc := st.frames[i].contract
		if cc == nil {
			cc = u.contractFor(st.frames[i].fn)
		}
		if cc == nil {
			continue
		}
		for _, k := range keys {
			if l, ok := cc.Dispatch[k]; ok {
				cands = l
				break
			}
		}
	}
	if cands == nil {
		if g, ok := u.contracts["dispatch"]; ok {
			for _, k := range keys {
				if l, ok := g.Dispatch[k]; ok {
					cands = l
				}
			}
		}
	}
	if cands == nil {
		ex.unsupported(st, "call through function value %v without dispatch clause", keys)
	}
	var idOK []*Term
	for _, cn := range cands {
		idOK = append(idOK, Eq(App(SInt, "fn_id", fv.T), IntLit(int64(u.funcID(cn)))))
	}
	fc.emit(st, "dispatch", fc.siteFor(in, "dyncall"), "function value is one of "+strings.Join(cands, ", ")+" at "+ex.posOf(in), nil, Or(idOK...))
	st.assume(Or(idOK...))
	// fork per candidate
	for i, cn := range cands {
		target := u.funcs[cn]
		if target == nil {
			ex.unsupported(st, "dispatch candidate %s not found", cn)
		}
		s2 := st
		if i < len(cands)-1 {
			s2 = st.clone()
		}
		s2.assume(idOK[i])
		s2.path = append(s2.path, "dyn:"+cn)
		fr2 := s2.top()
		a2 := args
		if target.Signature.Recv() != nil {
			r := SVal{Val: Val{T: App(SInt, "fn_recv", fv.T), Typ: target.Params[0].Type()}}
			a2 = append([]SVal{r}, args...)
		}
		forked := ex.staticCall(s2, fr2, in, target, a2, nil)
		if !forked {
			ex.run(s2)
		}
	}
	return true
}

func (ex *Exec) builtin(st *State, in *ssa.Call, b *ssa.Builtin, args []SVal) {
	fc := ex.fc
	set := func(t *Term) { ex.setVal(st, in, SVal{Val: Val{T: t, Typ: in.Type()}}) }
	switch b.Name() {
	case "len":
		a := args[0]
		if a.Arr != nil {
			set(IntLit(int64(len(a.Arr.elems))))
			return
		}
		if mt, ok := in.Common().Args[0].Type().Underlying().(*types.Map); ok {
			_ = mt
			fc.d.Fun("map_len", []Sort{SInt}, SInt)
			set(App(SInt, "map_len", a.T))
			return
		}
		set(SeqLen(a.T))
	case "cap":
		set(SeqLen(args[0].T))
	case "append":
		a, b2 := args[0].T, args[1].T
		set(SeqConcat(a, b2))
	case "ssa:wrapnilchk":
		ex.check(st, in, "nil", Not(Eq(args[0].T, IntLit(0))))
		ex.setVal(st, in, args[0])
	case "recover":
		if st.panicking {
			v := fc.d.Fresh("panicval", SAny)
			st.assume(Not(Eq(v, &Term{"a_nil", SAny})))
			st.recovered = true
			set(v)
		} else {
			set(&Term{"a_nil", SAny})
		}
	case "delete":
		m, k := args[0], args[1]
		mt := in.Common().Args[0].Type().Underlying().(*types.Map)
		ex.frameCheckMap(st, in, m.T, mt)
		_, dk, _, ds := fc.mapKeys(mt)
		od := st.heap.read(fc.d, dk, ds, m.T)
		st.heap = st.heap.store(dk, m.T, Store(od, k.T, TFalse))
	case "min", "max":
		a, b2 := args[0].T, args[1].T
		if b.Name() == "min" {
			set(Ite(Le(a, b2), a, b2))
		} else {
			set(Ite(Ge(a, b2), a, b2))
		}
	case "ssa:deferstack":
		ex.setVal(st, in, SVal{Val: Val{T: IntLit(0), Typ: in.Type()}})
	default:
		ex.unsupported(st, "builtin %s", b.Name())
	}
}

// syncMapType: the Go map type that models a sync.Map (any -> any).
func (u *Universe) syncMapType() *types.Map {
	if u.smapType == nil {
		e := types.NewInterfaceType(nil, nil)
		u.smapType = types.NewMap(e, e)
	}
	return u.smapType
}

// syncMapRef: the (constant, non-nil, old) reference standing for the contents of the
// sync.Map stored in package variable g.
func (fc *FuncCtx) syncMapRef(g string) *Term {
	r := fc.d.Const("smapref!"+sanitize(g), SInt)
	if !fc.d.old[r.S] {
		fc.d.old[r.S] = true
		// included only in obligations that mention the map (relevance filter of global axioms)
		fc.globalAxioms = append(fc.globalAxioms, Gt(r, IntLit(0)))
	}
	return r
}

func (ex *Exec) syncMapOp(st *State, in ssa.CallInstruction, name string, args []SVal) {
	fc := ex.fc
	mt := ex.u.syncMapType()
	ref := fc.syncMapRef(strings.TrimPrefix(args[0].HAddr.key, "global:"))
	vk, dk, vs, ds := fc.mapKeys(mt)
	if name == "(*sync.Map).Store" {
		ex.frameCheckMap(st, in, ref, mt)
		ov := st.heap.read(fc.d, vk, vs, ref)
		od := st.heap.read(fc.d, dk, ds, ref)
		st.heap = st.heap.store(vk, ref, Store(ov, args[1].T, args[2].T))
		st.heap = st.heap.store(dk, ref, Store(od, args[1].T, TTrue))
		return
	}
	v := fc.mapLookup(st.heap, mt, ref, args[1].T)
	has := fc.mapHas(st.heap, mt, ref, args[1].T)
	if val := in.Value(); val != nil {
		ex.setVal(st, val, SVal{Val: Val{Tuple: []Val{{T: v, Typ: mt.Elem()}, {T: has, Typ: types.Typ[types.Bool]}}}})
	}
}
