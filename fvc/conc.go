package main

// Concrete (ground) evaluation of pure spec expressions: integers, booleans, sequences,
// bounded quantifiers. Used for facts about constant tables established at package
// initialisation, and for evaluating clauses on replayed executions.

import (
	"fmt"
	"go/constant"
	"go/types"
	"strconv"
	"strings"
)

type cval interface{}

type concEnv struct {
	u    *Universe
	vars map[string]cval
	maxN int64
}

type concErr struct{ msg string }

func cfail(f string, a ...interface{}) { panic(concErr{fmt.Sprintf(f, a...)}) }

func (u *Universe) concEval(e Expr, vars map[string]cval) (v cval, err error) {
	defer func() {
		if r := recover(); r != nil {
			if ce, ok := r.(concErr); ok {
				err = fmt.Errorf("%s", ce.msg)
				return
			}
			panic(r)
		}
	}()
	ce := &concEnv{u: u, vars: vars}
	for _, x := range vars {
		if s, ok := x.([]cval); ok && int64(len(s)) > ce.maxN {
			ce.maxN = int64(len(s))
		}
	}
	ce.maxN += 2
	return ce.eval(e), nil
}

func (c *concEnv) with(name string, v cval) *concEnv {
	n := &concEnv{u: c.u, vars: map[string]cval{}, maxN: c.maxN}
	for k, x := range c.vars {
		n.vars[k] = x
	}
	n.vars[name] = v
	return n
}

func (c *concEnv) eval(e Expr) cval {
	switch x := e.(type) {
	case *EInt:
		if strings.HasPrefix(x.V, "0x") {
			n, _ := strconv.ParseInt(x.V[2:], 16, 64)
			return n
		}
		n, _ := strconv.ParseInt(x.V, 10, 64)
		return n
	case *EBool:
		return x.V
	case *EStr:
		var s []cval
		for i := 0; i < len(x.V); i++ {
			s = append(s, int64(x.V[i]))
		}
		return s
	case *EIdent:
		if v, ok := c.vars[x.Name]; ok {
			return v
		}
		if o, ok := c.u.tpkg.Scope().Lookup(x.Name).(*types.Const); ok {
			if n, exact := constant.Int64Val(o.Val()); exact {
				return n
			}
		}
		cfail("unknown identifier %s in ground evaluation", x.Name)
	case *EUnary:
		v := c.eval(x.X)
		switch x.Op {
		case "!":
			return !v.(bool)
		case "-":
			return -v.(int64)
		}
	case *EBinary:
		switch x.Op {
		case "&&":
			return c.eval(x.X).(bool) && c.eval(x.Y).(bool)
		case "||":
			return c.eval(x.X).(bool) || c.eval(x.Y).(bool)
		case "==>":
			return !c.eval(x.X).(bool) || c.eval(x.Y).(bool)
		case "<==>":
			return c.eval(x.X).(bool) == c.eval(x.Y).(bool)
		}
		a, b := c.eval(x.X), c.eval(x.Y)
		if ai, ok := a.(int64); ok {
			bi, ok := b.(int64)
			if !ok {
				cfail("type mismatch in %s", x.Op)
			}
			switch x.Op {
			case "+":
				return ai + bi
			case "-":
				return ai - bi
			case "*":
				return ai * bi
			case "/":
				if bi == 0 {
					cfail("division by zero")
				}
				return ai / bi
			case "%":
				if bi == 0 {
					cfail("division by zero")
				}
				return ai % bi
			case "==":
				return ai == bi
			case "!=":
				return ai != bi
			case "<":
				return ai < bi
			case "<=":
				return ai <= bi
			case ">":
				return ai > bi
			case ">=":
				return ai >= bi
			}
		}
		if ab, ok := a.(bool); ok {
			switch x.Op {
			case "==":
				return ab == b.(bool)
			case "!=":
				return ab != b.(bool)
			}
		}
		if as, ok := a.([]cval); ok {
			bs := b.([]cval)
			switch x.Op {
			case "++", "+":
				return append(append([]cval{}, as...), bs...)
			case "==":
				return seqEq(as, bs)
			case "!=":
				return !seqEq(as, bs)
			}
		}
		cfail("unsupported operator %s in ground evaluation", x.Op)
	case *ECond:
		if c.eval(x.C).(bool) {
			return c.eval(x.A)
		}
		return c.eval(x.B)
	case *EIndex:
		s := c.eval(x.X).([]cval)
		i := c.eval(x.I).(int64)
		if i < 0 || i >= int64(len(s)) {
			cfail("index %d out of range in ground evaluation", i)
		}
		return s[i]
	case *ESlice:
		s := c.eval(x.X).([]cval)
		lo, hi := int64(0), int64(len(s))
		if x.Lo != nil {
			lo = c.eval(x.Lo).(int64)
		}
		if x.Hi != nil {
			hi = c.eval(x.Hi).(int64)
		}
		if lo < 0 || hi > int64(len(s)) || lo > hi {
			return []cval{}
		}
		return s[lo:hi]
	case *ELet:
		return c.with(x.Name, c.eval(x.V)).eval(x.Body)
	case *ECall:
		switch x.Fun {
		case "len":
			return int64(len(c.eval(x.Args[0]).([]cval)))
		case "min":
			a, b := c.eval(x.Args[0]).(int64), c.eval(x.Args[1]).(int64)
			if a < b {
				return a
			}
			return b
		case "max":
			a, b := c.eval(x.Args[0]).(int64), c.eval(x.Args[1]).(int64)
			if a > b {
				return a
			}
			return b
		}
		if sf, ok := c.u.specFuncs[x.Fun]; ok && sf.Body != nil {
			n := &concEnv{u: c.u, vars: map[string]cval{}, maxN: c.maxN}
			for i, p := range sf.Params {
				n.vars[p.Name] = c.eval(x.Args[i])
			}
			return n.eval(sf.Body)
		}
		cfail("function %s not available in ground evaluation", x.Fun)
	case *EQuant:
		return c.quant(x, 0)
	}
	cfail("unsupported expression %T in ground evaluation", e)
	return nil
}

func seqEq(a, b []cval) bool {
	if len(a) != len(b) {
		return false
	}
	for i := range a {
		if a[i] != b[i] {
			return false
		}
	}
	return true
}

// quant evaluates a quantifier over int variables by enumeration of [0, maxN]; it insists
// on a syntactic guard bounding every variable so that the enumeration is exhaustive.
func (c *concEnv) quant(q *EQuant, k int) cval {
	if k == 0 {
		for _, v := range q.Vars {
			if strings.TrimSpace(v.Type) != "int" {
				cfail("ground evaluation of quantifier over %s", v.Type)
			}
			if !boundedIn(q, v.Name) {
				cfail("quantified variable %s has no syntactic bounds (0 <= v, v < ...) in its guard", v.Name)
			}
		}
	}
	if k == len(q.Vars) {
		// guard first to avoid out-of-range indexing in the body
		if b, ok := q.Body.(*EBinary); ok && ((q.Forall && b.Op == "==>") || (!q.Forall && b.Op == "&&")) {
			g := c.evalGuard(b.X)
			if q.Forall {
				if !g {
					return true
				}
				return c.eval(b.Y).(bool)
			}
			if !g {
				return false
			}
			return c.eval(b.Y).(bool)
		}
		return c.eval(q.Body).(bool)
	}
	for i := int64(0); i <= c.maxN; i++ {
		r := c.with(q.Vars[k].Name, i).quant(q, k+1).(bool)
		if q.Forall && !r {
			return false
		}
		if !q.Forall && r {
			return true
		}
	}
	return q.Forall
}

// evalGuard evaluates a conjunction left to right with short-circuit (so that later
// conjuncts may index safely).
func (c *concEnv) evalGuard(e Expr) bool {
	if b, ok := e.(*EBinary); ok && b.Op == "&&" {
		return c.evalGuard(b.X) && c.evalGuard(b.Y)
	}
	return c.eval(e).(bool)
}

func boundedIn(q *EQuant, name string) bool {
	b, ok := q.Body.(*EBinary)
	if !ok {
		return false
	}
	var conj []Expr
	var flat func(e Expr)
	flat = func(e Expr) {
		if x, ok := e.(*EBinary); ok && x.Op == "&&" {
			flat(x.X)
			flat(x.Y)
			return
		}
		conj = append(conj, e)
	}
	if (q.Forall && b.Op == "==>") || (!q.Forall && b.Op == "&&") {
		flat(b.X)
		if !q.Forall {
			flat(b.Y)
		}
	} else {
		return false
	}
	lower, upper := false, false
	for _, cj := range conj {
		x, ok := cj.(*EBinary)
		if !ok {
			continue
		}
		if (x.Op == "<=" || x.Op == "<") && isZeroLit(x.X) && mentions(x.Y, name) && isLinearIn(x.Y, name) {
			lower = true
		}
		if (x.Op == "<" || x.Op == "<=") && mentions(x.X, name) && isLinearIn(x.X, name) && !mentions(x.Y, name) {
			upper = true
		}
	}
	return lower && upper
}

func isZeroLit(e Expr) bool {
	i, ok := e.(*EInt)
	return ok && i.V == "0"
}

func mentions(e Expr, name string) bool {
	switch x := e.(type) {
	case *EIdent:
		return x.Name == name
	case *EBinary:
		return mentions(x.X, name) || mentions(x.Y, name)
	case *EUnary:
		return mentions(x.X, name)
	case *ECall:
		for _, a := range x.Args {
			if mentions(a, name) {
				return true
			}
		}
	case *EIndex:
		return mentions(x.X, name) || mentions(x.I, name)
	case *ECond:
		return mentions(x.C, name) || mentions(x.A, name) || mentions(x.B, name)
	}
	return false
}

// isLinearIn: e is v, c*v, v+c, c*v+c (monotone increasing in v with positive coefficients)
func isLinearIn(e Expr, name string) bool {
	switch x := e.(type) {
	case *EIdent:
		return x.Name == name
	case *EBinary:
		switch x.Op {
		case "+":
			if _, ok := x.Y.(*EInt); ok {
				return isLinearIn(x.X, name)
			}
			if _, ok := x.X.(*EInt); ok {
				return isLinearIn(x.Y, name)
			}
		case "*":
			if _, ok := x.X.(*EInt); ok {
				return isLinearIn(x.Y, name)
			}
			if _, ok := x.Y.(*EInt); ok {
				return isLinearIn(x.X, name)
			}
		}
	}
	return false
}
