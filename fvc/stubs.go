package main

func cmdReplay(args []string) int   { return 2 }
func cmdSelftest(args []string) int { return 2 }
