package main

import (
	"encoding/json"
	"fmt"
	"os"
	"os/exec"
	"path/filepath"
	"reflect"
	"strings"
)

// fvc replay <file>: show a replay file and, when it carries a test built from a solver model,
// run that test again on the real code (go test -overlay; nothing is written to /repo).
// Exit status 1 when a confirmed counterexample still behaves as recorded, 0 otherwise.
func cmdReplay(args []string) int {
	if len(args) < 1 {
		usage()
	}
	data, err := os.ReadFile(args[0])
	if err != nil {
		fmt.Fprintln(os.Stderr, "fvc:", err)
		return 2
	}
	var d map[string]interface{}
	if json.Unmarshal(data, &d) != nil {
		fmt.Fprintln(os.Stderr, "fvc: unreadable replay file")
		return 2
	}
	fmt.Printf("obligation: %v\nfunction:   %v\nclause:     %v\npath:       %v\nstatus:     %v\n", d["obligation"], d["function"], d["clause"], d["path"], d["status"])
	if off, ok := d["offenders"]; ok {
		fmt.Printf("offenders:  %v\n", off)
	}
	if r, ok := d["reason"]; ok {
		fmt.Printf("reason:     %v\n", r)
	}
	rep, _ := d["replay"].(map[string]interface{})
	if rep == nil {
		fmt.Println("no replayable counterexample is attached (the solver output is in the file)")
		return 0
	}
	fmt.Printf("inputs:     %v\nrecorded:   %v\nverdict:    %v\n", rep["inputs"], rep["observed"], rep["verdict"])
	src, _ := rep["test"].(string)
	if src == "" {
		return 0
	}
	scratch := scratchDir()
	defer os.RemoveAll(scratch)
	testFile := filepath.Join(scratch, "zz_fvc_replay_test.go")
	ovFile := filepath.Join(scratch, "overlay.json")
	os.WriteFile(testFile, []byte(src), 0o644)
	ov, _ := json.Marshal(map[string]interface{}{"Replace": map[string]string{filepath.Join(repoDir(), "zz_fvc_replay_test.go"): testFile}})
	os.WriteFile(ovFile, ov, 0o644)
	cmd := exec.Command("go", "test", "-overlay", ovFile, "-vet=off", "-count=1", "-timeout", "60s", "-run", "^TestFvcReplay$", "-v", ".")
	cmd.Dir = repoDir()
	cmd.Env = append(os.Environ(), "GOFLAGS=-mod=mod", "GOPROXY=off", "GOSUMDB=off", "GOTOOLCHAIN=local")
	outB, _ := cmd.CombinedOutput()
	out := string(outB)
	idx := strings.Index(out, "FVC-REPLAY ")
	if idx < 0 {
		fmt.Println("re-run:     the test did not run:\n" + trimOut(out))
		return 0
	}
	line := out[idx+len("FVC-REPLAY "):]
	if j := strings.Index(line, "\n"); j >= 0 {
		line = line[:j]
	}
	var obs map[string]interface{}
	json.Unmarshal([]byte(line), &obs)
	fmt.Printf("re-run:     %v\n", obs)
	same := reflect.DeepEqual(obs, rep["observed"])
	confirmed := strings.HasPrefix(fmt.Sprint(rep["verdict"]), "confirmed")
	if same && confirmed {
		fmt.Println("the real code still behaves as in the recorded counterexample")
		return 1
	}
	if !same {
		fmt.Println("the real code now behaves differently from the recorded counterexample")
	}
	return 0
}

// fvc selftest: the must-fail corpus (mutants and seeded changes) and the canaries.
func cmdSelftest(args []string) int {
	rc := 0
	for _, sc := range []string{"selftest/run.sh", "selftest/canaries.sh"} {
		cmd := exec.Command(filepath.Join(verifDir(), sc), args...)
		cmd.Stdout, cmd.Stderr = os.Stdout, os.Stderr
		if cmd.Run() != nil {
			rc = 1
		}
	}
	return rc
}
