package main

// Package-wide syntactic sweeps over go/ssa (C08, C09): facts of the form "no function of
// the package does X" that a per-function contract cannot state. Each sweep is an obligation
// that is decided by inspection of the SSA of the current tree on every run.

import (
	"fmt"
	"go/types"
	"sort"
	"strings"

	"golang.org/x/tools/go/ssa"
)

type sweepResult struct {
	Name   string
	Clause string
	Bad    []string
}

// methods that only read their receiver (assumed): a package-level variable may be passed to them
var readOnlyMethods = map[string]bool{
	"(*sync.Map).Load": true,
}

// external functions whose result depends on something other than their arguments
func nondetCallee(name string) bool {
	for _, p := range []string{"time.Now", "time.Since", "time.Until", "rand.", "os.", "runtime.", "syscall.", "(*rand."} {
		if strings.HasPrefix(name, p) {
			return true
		}
	}
	return false
}

func (u *Universe) packageFuncs() []*ssa.Function {
	var out []*ssa.Function
	for _, fn := range u.funcList {
		if len(fn.Blocks) == 0 {
			continue
		}
		if fn.Pkg != u.pkg && !(fn.Origin() != nil && fn.Origin().Pkg == u.pkg) {
			continue
		}
		if fn.Synthetic != "" && !strings.Contains(fn.Synthetic, "instance") && !strings.Contains(fn.Synthetic, "package initializer") {
			continue
		}
		if fn.TypeParams().Len() > 0 && len(fn.TypeArgs()) == 0 {
			continue // uninstantiated generic: its instances are inspected
		}
		out = append(out, fn)
	}
	return out
}

// reachable: functions reachable from the public entry points by static calls, closures and
// bound methods, plus every builtin registered in the table (they are called reflectively).
func (u *Universe) reachable() map[*ssa.Function]bool {
	seen := map[*ssa.Function]bool{}
	var visit func(f *ssa.Function)
	visit = func(f *ssa.Function) {
		if f == nil || seen[f] {
			return
		}
		seen[f] = true
		for _, b := range f.Blocks {
			for _, in := range b.Instrs {
				for _, op := range in.Operands(nil) {
					switch v := (*op).(type) {
					case *ssa.Function:
						if v.Pkg == u.pkg || (v.Origin() != nil && v.Origin().Pkg == u.pkg) || strings.Contains(v.String(), u.tpkg.Path()) {
							n := u.displayName(v)
							if strings.HasSuffix(n, "$bound") {
								if m := u.funcs[strings.TrimSuffix(n, "$bound")]; m != nil {
									visit(m)
								}
							}
							visit(v)
						}
					case *ssa.MakeClosure:
						visit(v.Fn.(*ssa.Function))
					}
				}
				if ci, ok := in.(ssa.CallInstruction); ok && ci.Common().IsInvoke() {
					// interface method: every implementation inside the package
					for _, g := range u.funcList {
						if g.Signature.Recv() != nil && g.Name() == ci.Common().Method.Name() && (g.Pkg == u.pkg) {
							visit(g)
						}
					}
				}
			}
		}
	}
	for _, fn := range u.packageFuncs() {
		if fn.Object() != nil && fn.Object().Exported() && fn.Signature.Recv() == nil {
			visit(fn)
		}
		if fn.Signature.Recv() != nil && fn.Object() != nil && fn.Object().Exported() {
			visit(fn)
		}
		if strings.HasPrefix(fn.Name(), "fun") || isInitFunc(fn) {
			visit(fn)
		}
	}
	return seen
}

// functions that may read the runner's data map (C10: evaluation reads the data only through
// identifiers and `this`; SetThisValue reads the field to create the map)
var dataReaders = map[string]bool{
	"(*Runner).resolveIdentifier": true, "(*Runner).resolveLiteralExpression": true, "(*Runner).SetThisValue": true,
}

// functions that iterate a map but whose observable result does not depend on the order
// (argued in DESIGN.md section 5, C08): stringsUniq returns a duplicate-free list that its only
// caller, the field analysis, hands out as a set (C10 speaks of "the distinct names").
var orderIndependent = map[string]bool{
	"stringsUniq": true,
}

func (u *Universe) runSweeps(inlined map[string]bool) []sweepResult {
	var globals, conc, nondet, ast, writers, reads []string
	mapOrder := map[string][]string{}
	reach := u.reachable()
	typeFile := func(name string) string {
		if o := u.tpkg.Scope().Lookup(name); o != nil {
			return shortFile(u.fset.Position(o.Pos()).Filename)
		}
		return ""
	}
	for _, fn := range u.packageFuncs() {
		name := u.displayName(fn)
		file := ""
		if fn.Pos().IsValid() {
			file = shortFile(u.fset.Position(fn.Pos()).Filename)
		} else if fn.Parent() != nil && fn.Parent().Pos().IsValid() {
			file = shortFile(u.fset.Position(fn.Parent().Pos()).Filename)
		}
		hasHeapWrite := false
		for _, b := range fn.Blocks {
			for _, in := range b.Instrs {
				pos := func() string {
					if in.Pos().IsValid() {
						p := u.fset.Position(in.Pos())
						return fmt.Sprintf("%s:%d", shortFile(p.Filename), p.Line)
					}
					return name
				}
				if ld, ok := in.(*ssa.UnOp); ok {
					if fa, ok := ld.X.(*ssa.FieldAddr); ok {
						stT, s := derefStruct(fa.X.Type())
						if u.typeName(stT) == "Runner" && s.Field(fa.Field).Name() == "this" && !dataReaders[name] {
							reads = append(reads, fmt.Sprintf("%s reads Runner.this at %s", name, pos()))
						}
					}
				}
				// iteration over a map: Go randomises the order (C08: same value or same error every time)
				if reach[fn] && !orderIndependent[name] {
					if rg, ok := in.(*ssa.Range); ok {
						if _, isMap := rg.X.Type().Underlying().(*types.Map); isMap {
							mapOrder[name] = append(mapOrder[name], fmt.Sprintf("%s ranges over a map at %s", name, pos()))
						}
					}
					if ci, ok := in.(ssa.CallInstruction); ok {
						if sc := ci.Common().StaticCallee(); sc != nil {
							switch u.displayName(sc) {
							case "(reflect.Value).MapRange", "(reflect.Value).MapKeys":
								mapOrder[name] = append(mapOrder[name], fmt.Sprintf("%s iterates a map through %s at %s", name, u.displayName(sc), pos()))
							}
						}
					}
				}
				switch x := in.(type) {
				case *ssa.Go, *ssa.Select, *ssa.Send, *ssa.MakeChan:
					conc = append(conc, fmt.Sprintf("%s uses %T at %s", name, in, pos()))
				case *ssa.Store:
					if rootAlloc(x.Addr) == nil {
						if _, isGlobal := x.Addr.(*ssa.Global); !isGlobal || !isInitFunc(fn) {
							hasHeapWrite = true
						}
					}
					if fa, ok := x.Addr.(*ssa.FieldAddr); ok && rootAlloc(x.Addr) == nil {
						stT, s := derefStruct(fa.X.Type())
						tn := u.typeName(stT)
						// SourceCode.LineStarts is the one lazily filled cache (per source object, C09)
						isCache := tn == "SourceCode" && s.Field(fa.Field).Name() == "LineStarts"
						if u.isTreeType(stT) && !isCache && typeFile(genericName(tn)) != "" && file != "parser.go" && file != "types.go" && !isInitFunc(fn) {
							ast = append(ast, fmt.Sprintf("%s writes %s.%s at %s", name, tn, s.Field(fa.Field).Name(), pos()))
						}
					}
				case *ssa.MapUpdate:
					hasHeapWrite = true
					if g := rootGlobalVal(x.Map); g != nil && !isInitFunc(fn) {
						globals = append(globals, fmt.Sprintf("%s updates the map in package variable %s at %s", name, g.Name(), pos()))
					}
				case ssa.CallInstruction:
					if sc := x.Common().StaticCallee(); sc != nil {
						cn := u.displayName(sc)
						if nondetCallee(cn) && name != "funNow" && name != "funToDay" && !isInitFunc(fn) {
							nondet = append(nondet, fmt.Sprintf("%s calls %s at %s", name, cn, pos()))
						}
					}
					if b, ok := x.Common().Value.(*ssa.Builtin); ok && b.Name() == "delete" && len(x.Common().Args) > 0 {
						if g := rootGlobalVal(x.Common().Args[0]); g != nil && !isInitFunc(fn) {
							globals = append(globals, fmt.Sprintf("%s deletes from the map in package variable %s at %s", name, g.Name(), pos()))
						}
					}
				}
				// uses of the address of a package-level variable (own or of a dependency)
				for _, op := range in.Operands(nil) {
					g := rootGlobal(*op)
					if g == nil {
						continue
					}
					ok := false
					switch x := in.(type) {
					case *ssa.UnOp:
						ok = true // load
					case *ssa.FieldAddr, *ssa.IndexAddr:
						ok = true // address computation; its own uses are inspected
					case *ssa.DebugRef:
						ok = true
					case *ssa.Store:
						ok = x.Addr == *op && isInitFunc(fn)
					case ssa.CallInstruction:
						if sc := x.Common().StaticCallee(); sc != nil && len(x.Common().Args) > 0 && x.Common().Args[0] == *op {
							ok = readOnlyMethods[u.displayName(sc)] || isInitFunc(fn)
						}
					}
					if !ok {
						gn := g.Name()
						if g.Pkg != u.pkg {
							gn = g.Pkg.Pkg.Name() + "." + gn
						}
						globals = append(globals, fmt.Sprintf("%s writes or leaks the address of package variable %s (%T) at %s", name, gn, in, pos()))
					}
				}
			}
		}
		if hasHeapWrite && reach[fn] && !isInitFunc(fn) {
			c := u.contractFor(fn)
			gname := genericName(name)
			if (c == nil || c.Inline) && !inlined[name] && !inlined[gname] {
				if u.contracts[gname] == nil {
					writers = append(writers, name+" ("+file+")")
				}
			}
		}
	}
	mk := func(n, clause string, bad []string) sweepResult {
		sort.Strings(bad)
		return sweepResult{Name: "package#sweep." + n, Clause: clause, Bad: uniq(bad)}
	}
	var orderRes []sweepResult
	if len(mapOrder) == 0 {
		orderRes = append(orderRes, mk("map-order", "no reachable function iterates a map in Go's randomised order (other than those argued order-independent)", nil))
	}
	for _, fnName := range sortedKeys(mapOrder) {
		orderRes = append(orderRes, mk("map-order@"+fnName, "the result of "+fnName+" does not depend on Go's randomised map iteration order", mapOrder[fnName]))
	}
	return append([]sweepResult{
		mk("globals", "package-level variables (of this package and of its dependencies) are written only by init; their addresses are passed only to read-only methods", globals),
		mk("concurrency", "no goroutine, channel or select anywhere in the package", conc),
		mk("nondeterminism", "no call of a clock, random or environment function outside funNow/funToDay", nondet),
		mk("ast-writes", "fields of the tree types (types.go) are written only by the parser (parser.go) and the constructors/setters in types.go", ast),
		mk("data-reads", "the runner's data map is read only by the identifier and `this` evaluators (and by SetThisValue)", reads),
		mk("writers", "every reachable function that writes the heap is verified against a frame (it has a contract, or is inlined into a function that has one)", writers),
	}, orderRes...)
}

// isTreeType: a struct type of the syntax tree - it implements Node, or is one of the
// embedded bases (node, textRange) or the node list.
func (u *Universe) isTreeType(t types.Type) bool {
	n, ok := t.(*types.Named)
	if !ok || n.Obj().Pkg() != u.tpkg {
		return false
	}
	switch n.Obj().Name() {
	case "node", "textRange", "NodeList", "TokenNode":
		return true
	}
	if o, ok := u.tpkg.Scope().Lookup("Node").(*types.TypeName); ok {
		if it, ok := o.Type().Underlying().(*types.Interface); ok {
			return types.Implements(types.NewPointer(t), it)
		}
	}
	return false
}

// reachableFromNames: functions reachable from the named roots ("fun*" = every builtin).
func (u *Universe) reachableFromNames(roots ...string) map[*ssa.Function]bool {
	seen := map[*ssa.Function]bool{}
	var visit func(f *ssa.Function)
	visit = func(f *ssa.Function) {
		if f == nil || seen[f] {
			return
		}
		seen[f] = true
		for _, b := range f.Blocks {
			for _, in := range b.Instrs {
				for _, op := range in.Operands(nil) {
					switch v := (*op).(type) {
					case *ssa.Function:
						if v.Pkg == u.pkg || (v.Origin() != nil && v.Origin().Pkg == u.pkg) || strings.Contains(v.String(), u.tpkg.Path()) {
							n := u.displayName(v)
							if strings.HasSuffix(n, "$bound") {
								if m := u.funcs[strings.TrimSuffix(n, "$bound")]; m != nil {
									visit(m)
								}
							}
							visit(v)
						}
					case *ssa.MakeClosure:
						visit(v.Fn.(*ssa.Function))
					}
				}
				if ci, ok := in.(ssa.CallInstruction); ok && ci.Common().IsInvoke() {
					for _, g := range u.funcList {
						if g.Signature.Recv() != nil && g.Name() == ci.Common().Method.Name() && g.Pkg == u.pkg {
							visit(g)
						}
					}
				}
			}
		}
	}
	for _, r := range roots {
		if r == "fun*" {
			for n, f := range u.funcs {
				if strings.HasPrefix(n, "fun") && f.Pkg == u.pkg {
					visit(f)
				}
			}
			continue
		}
		visit(u.funcs[r])
	}
	return seen
}
