package main

// Name baseline: the contract file refers to parameters and local variables by the names they had
// when the contracts were written. A pure renaming of parameters or locals is harmless to every
// property, but would leave the contracts pointing at names that no longer exist. spec/names.json
// records, per function under contract, the parameter names and the named locals (in source
// order, with their types) at that time (`fvc names > spec/names.json`). When a function still
// has the same number of parameters / locals with the same types in the same order but a
// different set of names, the recorded names are used for it, position by position. Invariants
// and contracts are always *checked*, so a wrong guess can only make a proof fail, never succeed.

import (
	"encoding/json"
	"fmt"
	"os"
	"path/filepath"
	"sort"

	"golang.org/x/tools/go/ssa"
)

type nameBase struct {
	Params []string    `json:"params"`
	Locals [][2]string `json:"locals"` // name, type
}

func namedAllocs(fn *ssa.Function) []*ssa.Alloc {
	var allocs []*ssa.Alloc
	for _, b := range fn.Blocks {
		for _, in := range b.Instrs {
			if a, ok := in.(*ssa.Alloc); ok && a.Comment != "" {
				allocs = append(allocs, a)
			}
		}
	}
	sort.SliceStable(allocs, func(i, j int) bool { return allocs[i].Pos() < allocs[j].Pos() })
	return allocs
}

func (u *Universe) loadNameBase(specDir string) {
	u.nameBase = map[string]*nameBase{}
	b, err := os.ReadFile(filepath.Join(specDir, "names.json"))
	if err != nil {
		return
	}
	if err := json.Unmarshal(b, &u.nameBase); err != nil {
		u.loadErrs = append(u.loadErrs, "names.json: "+err.Error())
	}
}

func sameNameSet(a, b []string) bool {
	if len(a) != len(b) {
		return false
	}
	m := map[string]int{}
	for _, x := range a {
		m[x]++
	}
	for _, x := range b {
		m[x]--
	}
	for _, n := range m {
		if n != 0 {
			return false
		}
	}
	return true
}

// paramNames: the names under which the parameters of fn are known to its contract.
func (u *Universe) paramNames(fn *ssa.Function) []string {
	cur := make([]string, len(fn.Params))
	for i, p := range fn.Params {
		cur[i] = p.Name()
	}
	nb := u.nameBase[genericName(u.displayName(fn))]
	if nb == nil || len(nb.Params) != len(cur) || sameNameSet(nb.Params, cur) {
		return cur
	}
	return nb.Params
}

// localNames: the same for the named local cells (aligned with namedAllocs(fn)).
func (u *Universe) localNames(fn *ssa.Function, allocs []*ssa.Alloc) []string {
	cur := make([]string, len(allocs))
	for i, a := range allocs {
		cur[i] = a.Comment
	}
	nb := u.nameBase[genericName(u.displayName(fn))]
	if nb == nil || len(nb.Locals) != len(cur) {
		return cur
	}
	base := make([]string, len(cur))
	for i, l := range nb.Locals {
		if l[1] != allocs[i].Type().String() {
			return cur
		}
		base[i] = l[0]
	}
	if sameNameSet(base, cur) {
		return cur
	}
	return base
}

func cmdNames(args []string) int {
	u, err := loadUniverse()
	if err != nil {
		fmt.Fprintln(os.Stderr, "load:", err)
		return 2
	}
	out := map[string]*nameBase{}
	for _, n := range sortedKeys(u.funcs) {
		fn := u.funcs[n]
		if u.contractFor(fn) == nil || len(fn.Blocks) == 0 {
			continue
		}
		key := genericName(n)
		if _, ok := out[key]; ok {
			continue
		}
		nb := &nameBase{Params: []string{}, Locals: [][2]string{}}
		for _, p := range fn.Params {
			nb.Params = append(nb.Params, p.Name())
		}
		for _, a := range namedAllocs(fn) {
			nb.Locals = append(nb.Locals, [2]string{a.Comment, a.Type().String()})
		}
		out[key] = nb
	}
	b, _ := json.MarshalIndent(out, "", " ")
	fmt.Println(string(b))
	return 0
}
