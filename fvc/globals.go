package main

// Facts about package-level variables that are established by the package initialiser and
// preserved because no function other than init writes them (checked syntactically on
// every run: see globalWrites).

import (
	"fmt"
	"go/constant"
	"go/types"
	"strings"

	"golang.org/x/tools/go/ssa"
)

type globalFact struct {
	nonNil bool
	cval   constant.Value
	fields map[string]constant.Value // for &T{...}: field name -> constant
	styp   types.Type
	id     int // distinct object index for &T{...} literals
	seqLen int // for slice literals: number of elements (-1 unknown)
	elems  []constant.Value
	isStr  bool // elements are string constants (array of strings initialised by index)
}

func isInitFunc(fn *ssa.Function) bool {
	n := fn.Name()
	return n == "init" || strings.HasPrefix(n, "init#") || strings.HasPrefix(n, "init$")
}

// computeGlobalFacts scans the synthetic package initialiser.
func (u *Universe) computeGlobalFacts() {
	u.globalFacts = map[string]*globalFact{}
	u.globalWritten = map[string]string{}
	u.fieldWritten = map[string]string{}
	// writes outside init
	for _, fn := range u.funcList {
		if fn.Pkg != u.pkg && !(fn.Origin() != nil && fn.Origin().Pkg == u.pkg) {
			continue
		}
		if isInitFunc(fn) {
			continue
		}
		for _, b := range fn.Blocks {
			for _, in := range b.Instrs {
				switch st := in.(type) {
				case *ssa.Store:
					if g := rootGlobal(st.Addr); g != nil {
						u.globalWritten[g.Name()] = u.displayName(fn)
					}
					if fa, ok := st.Addr.(*ssa.FieldAddr); ok {
						stT, s := derefStruct(fa.X.Type())
						u.fieldWritten[u.fieldKey(stT, s.Field(fa.Field))] = u.displayName(fn)
					}
				case *ssa.MapUpdate:
					if g := rootGlobalVal(st.Map); g != nil {
						u.globalWritten[g.Name()] = u.displayName(fn)
					}
				}
			}
		}
	}
	init := u.pkg.Func("init")
	if init == nil {
		return
	}
	// arrays initialised element by element: g[k] = const (e.g. the token text table)
	for _, b := range init.Blocks {
		for _, in := range b.Instrs {
			st, ok := in.(*ssa.Store)
			if !ok {
				continue
			}
			ia, ok := st.Addr.(*ssa.IndexAddr)
			if !ok {
				continue
			}
			g, ok := ia.X.(*ssa.Global)
			if !ok {
				continue
			}
			at, ok := g.Type().Underlying().(*types.Pointer).Elem().Underlying().(*types.Array)
			if !ok {
				continue
			}
			ic, ok1 := ia.Index.(*ssa.Const)
			vc, ok2 := st.Val.(*ssa.Const)
			gf := u.globalFacts[g.Name()]
			if gf == nil {
				gf = &globalFact{seqLen: int(at.Len()), elems: make([]constant.Value, at.Len())}
				if b, ok := at.Elem().Underlying().(*types.Basic); ok && b.Info()&types.IsString != 0 {
					gf.isStr = true
				}
				u.globalFacts[g.Name()] = gf
			}
			if !ok1 || !ok2 || ic.Value == nil || vc.Value == nil {
				gf.elems = nil // not constant: no facts
				continue
			}
			if idx, exact := constant.Int64Val(ic.Value); exact && gf.elems != nil && idx >= 0 && idx < at.Len() {
				gf.elems[idx] = vc.Value
			}
		}
	}
	nid := 0
	for _, b := range init.Blocks {
		for _, in := range b.Instrs {
			st, ok := in.(*ssa.Store)
			if !ok {
				continue
			}
			g, ok := st.Addr.(*ssa.Global)
			if !ok {
				continue
			}
			gf := &globalFact{}
			switch v := st.Val.(type) {
			case *ssa.Alloc:
				gf.nonNil = true
				nid++
				gf.id = nid
				et := v.Type().Underlying().(*types.Pointer).Elem()
				gf.styp = et
				gf.fields = map[string]constant.Value{}
				// field stores on the alloc
				for _, ref := range *v.Referrers() {
					fa, ok := ref.(*ssa.FieldAddr)
					if !ok {
						continue
					}
					_, s := derefStruct(fa.X.Type())
					for _, r2 := range *fa.Referrers() {
						if s2, ok := r2.(*ssa.Store); ok && s2.Addr == fa {
							if c, ok := s2.Val.(*ssa.Const); ok && c.Value != nil {
								gf.fields[s.Field(fa.Field).Name()] = c.Value
							}
						}
					}
				}
			case *ssa.Const:
				if v.Value != nil {
					gf.cval = v.Value
				}
			case *ssa.Slice:
				a, ok := v.X.(*ssa.Alloc)
				if !ok || v.Low != nil || v.High != nil {
					continue
				}
				at, ok := a.Type().Underlying().(*types.Pointer).Elem().Underlying().(*types.Array)
				if !ok {
					continue
				}
				gf.seqLen = int(at.Len())
				gf.elems = make([]constant.Value, at.Len())
				for _, ref := range *a.Referrers() {
					ia, ok := ref.(*ssa.IndexAddr)
					if !ok {
						continue
					}
					ic, ok := ia.Index.(*ssa.Const)
					if !ok || ic.Value == nil {
						continue
					}
					idx, _ := constant.Int64Val(ic.Value)
					for _, r2 := range *ia.Referrers() {
						if s2, ok := r2.(*ssa.Store); ok && s2.Addr == ia {
							if c, ok := s2.Val.(*ssa.Const); ok && c.Value != nil && idx >= 0 && idx < at.Len() {
								gf.elems[idx] = c.Value
							}
						}
					}
				}
			default:
				continue
			}
			u.globalFacts[g.Name()] = gf
		}
	}
}

func rootGlobal(v ssa.Value) *ssa.Global {
	for {
		switch x := v.(type) {
		case *ssa.Global:
			return x
		case *ssa.FieldAddr:
			v = x.X
		case *ssa.IndexAddr:
			v = x.X
		default:
			return nil
		}
	}
}

func rootGlobalVal(v ssa.Value) *ssa.Global {
	if u, ok := v.(*ssa.UnOp); ok {
		return rootGlobal(u.X)
	}
	return nil
}

// globalAssumptions returns facts about the value v read from global `name`.
func (fc *FuncCtx) globalAssumptions(h *Heap, name string, v *Term) []*Term {
	u := fc.u
	gf := u.globalFacts[name]
	if gf == nil {
		return nil
	}
	if w, written := u.globalWritten[name]; written {
		fc.noteAssumption("global " + name + " is written outside init by " + w + ": no initial-value facts used")
		return nil
	}
	var out []*Term
	for i, g := range u.gfacts {
		if !g.ok {
			continue
		}
		for _, gn := range g.globals {
			if gn != name {
				continue
			}
			key := fmt.Sprintf("gfact:%d", i)
			if fc.unfolded[key] {
				continue
			}
			fc.unfolded[key] = true
			env := &Env{fc: fc, heap: baseHeap(), oldHeap: baseHeap(), alloc: fc.entryAlloc, oldAlloc: fc.entryAlloc, vars: map[string]Val{}}
			fc.addAxiom(env.evalBool(g.clause.E))
		}
	}
	if gf.nonNil && v.Sort == SInt {
		out = append(out, Not(Eq(v, IntLit(0))))
		if s, ok := gf.styp.Underlying().(*types.Struct); ok {
			for i := 0; i < s.NumFields(); i++ {
				f := s.Field(i)
				key := u.fieldKey(gf.styp, f)
				if _, w := u.fieldWritten[key]; w {
					continue
				}
				cv, ok := gf.fields[f.Name()]
				srt := u.sortOf(f.Type())
				var val *Term
				if ok {
					val = fc.constVal(cv, f.Type()).T
				} else {
					val = fc.zeroOfSort(srt)
				}
				fc.declSort(srt)
				out = append(out, Eq(h.read(fc.d, key, srt, v), val))
			}
		}
	}
	if gf.elems != nil && v.Sort.IsSeq() {
		out = append(out, Eq(SeqLen(v), IntLit(int64(gf.seqLen))))
	}
	if gf.cval != nil {
		// type of the global
		if obj, ok := u.tpkg.Scope().Lookup(name).(*types.Var); ok {
			out = append(out, Eq(v, fc.constVal(gf.cval, obj.Type()).T))
		}
	}
	return out
}


// gfact: a boolean spec expression over never-written constant globals, established by
// ground evaluation on the initialiser's constants (no solver involved) and then assumed
// wherever such a global is read.
type gfact struct {
	clause  *Clause
	globals []string
	ok      bool
	err     string
}

func (u *Universe) checkGlobalFacts() {
	for _, g := range u.gfacts {
		vars := map[string]cval{}
		g.ok = true
		for name, gf := range u.globalFacts {
			if !mentions(g.clause.E, name) {
				continue
			}
			g.globals = append(g.globals, name)
			if w, written := u.globalWritten[name]; written {
				g.ok, g.err = false, "global "+name+" is written outside init by "+w
				continue
			}
			if gf.elems == nil {
				g.ok, g.err = false, "global "+name+" is not a constant slice literal"
				continue
			}
			var s []cval
			for _, e := range gf.elems {
				if gf.isStr {
					str := ""
					if e != nil {
						str = constant.StringVal(e)
					}
					var bs []cval
					for i := 0; i < len(str); i++ {
						bs = append(bs, int64(str[i]))
					}
					if bs == nil {
						bs = []cval{}
					}
					s = append(s, bs)
					continue
				}
				if e == nil {
					g.ok, g.err = false, "global "+name+" has non-constant elements"
					break
				}
				n, exact := constant.Int64Val(e)
				if !exact {
					g.ok, g.err = false, "non-integer element"
				}
				s = append(s, n)
			}
			vars[name] = s
		}
		if !g.ok {
			continue
		}
		if len(g.globals) == 0 {
			g.ok, g.err = false, "mentions no constant global"
			continue
		}
		v, err := u.concEval(g.clause.E, vars)
		if err != nil {
			g.ok, g.err = false, err.Error()
			continue
		}
		if b, isB := v.(bool); !isB || !b {
			g.ok, g.err = false, "evaluates to false on the initialiser's constants"
		}
	}
}
